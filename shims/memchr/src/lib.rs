//! Verification shim for `memchr` (environment, not subject).
//!
//! The real crate does run-time CPU feature detection with inline assembly, which
//! Kani cannot translate. This shim implements exactly the documented contract of
//! the items nucleo-matcher uses:
//!   memchr/memchr2: index of the first byte equal to (one of) the needle(s)
//!   memrchr/memrchr2: index of the last such byte
//!   Memchr/Memchr2: forward iterators over all such indices, ascending
//!   memmem::find: start of the leftmost occurrence; empty needle -> Some(0)
//!   memmem::find_iter: leftmost NON-OVERLAPPING occurrences, ascending
//!     (documented: "Returns an iterator over all non-overlapping occurrences")

#[inline(never)]
pub fn memchr(n: u8, hay: &[u8]) -> Option<usize> {
    let mut i = 0;
    while i < hay.len() {
        if hay[i] == n {
            return Some(i);
        }
        i += 1;
    }
    None
}

#[inline(never)]
pub fn memchr2(n1: u8, n2: u8, hay: &[u8]) -> Option<usize> {
    let mut i = 0;
    while i < hay.len() {
        if hay[i] == n1 || hay[i] == n2 {
            return Some(i);
        }
        i += 1;
    }
    None
}

#[inline(never)]
pub fn memrchr(n: u8, hay: &[u8]) -> Option<usize> {
    let mut i = hay.len();
    while i > 0 {
        i -= 1;
        if hay[i] == n {
            return Some(i);
        }
    }
    None
}

#[inline(never)]
pub fn memrchr2(n1: u8, n2: u8, hay: &[u8]) -> Option<usize> {
    let mut i = hay.len();
    while i > 0 {
        i -= 1;
        if hay[i] == n1 || hay[i] == n2 {
            return Some(i);
        }
    }
    None
}

pub struct Memchr<'h> {
    n: u8,
    hay: &'h [u8],
    pos: usize,
}

impl<'h> Memchr<'h> {
    pub fn new(n: u8, hay: &'h [u8]) -> Memchr<'h> {
        Memchr { n, hay, pos: 0 }
    }
}

impl<'h> Iterator for Memchr<'h> {
    type Item = usize;
    fn next(&mut self) -> Option<usize> {
        while self.pos < self.hay.len() {
            let i = self.pos;
            self.pos += 1;
            if self.hay[i] == self.n {
                return Some(i);
            }
        }
        None
    }
}

pub struct Memchr2<'h> {
    n1: u8,
    n2: u8,
    hay: &'h [u8],
    pos: usize,
}

impl<'h> Memchr2<'h> {
    pub fn new(n1: u8, n2: u8, hay: &'h [u8]) -> Memchr2<'h> {
        Memchr2 { n1, n2, hay, pos: 0 }
    }
}

impl<'h> Iterator for Memchr2<'h> {
    type Item = usize;
    fn next(&mut self) -> Option<usize> {
        while self.pos < self.hay.len() {
            let i = self.pos;
            self.pos += 1;
            if self.hay[i] == self.n1 || self.hay[i] == self.n2 {
                return Some(i);
            }
        }
        None
    }
}

pub mod memmem {
    fn find_from(hay: &[u8], needle: &[u8], from: usize) -> Option<usize> {
        if needle.len() > hay.len() {
            return None;
        }
        let mut i = from;
        while i + needle.len() <= hay.len() {
            let mut j = 0;
            let mut ok = true;
            while j < needle.len() {
                if hay[i + j] != needle[j] {
                    ok = false;
                    break;
                }
                j += 1;
            }
            if ok {
                return Some(i);
            }
            i += 1;
        }
        None
    }

    #[inline(never)]
    pub fn find(hay: &[u8], needle: &[u8]) -> Option<usize> {
        find_from(hay, needle, 0)
    }

    pub struct FindIter<'h, 'n> {
        hay: &'h [u8],
        needle: &'n [u8],
        pos: usize,
    }

    pub fn find_iter<'h, 'n, N: 'n + ?Sized + AsRef<[u8]>>(
        hay: &'h [u8],
        needle: &'n N,
    ) -> FindIter<'h, 'n> {
        FindIter {
            hay,
            needle: needle.as_ref(),
            pos: 0,
        }
    }

    impl<'h, 'n> Iterator for FindIter<'h, 'n> {
        type Item = usize;
        fn next(&mut self) -> Option<usize> {
            if self.pos > self.hay.len() {
                return None;
            }
            let i = find_from(self.hay, self.needle, self.pos)?;
            // non-overlapping: continue after the end of this occurrence
            // (an empty needle advances by one, as the real crate does)
            self.pos = i + core::cmp::max(1, self.needle.len());
            Some(i)
        }
    }
}
