//! Verification shim for `rayon` (environment, not subject).
//!
//! Contract assumed (rayon's documented behaviour): `join(a, b)` runs both closures exactly once,
//! in some order / overlapped; a parallel iterator runs its closures exactly once per item on
//! disjoint data, in any order (`take_any_while`: items after the predicate failed may or may not
//! run), `par_extend` / `collect` preserve the index order of an indexed iterator;
//! `current_thread_index()` is `Some(k)` with `k <` number of pool threads inside the pool.
//!
//! Model: one thread. `join` runs its closures in a solver-chosen order. An indexed parallel
//! iterator is split at a solver-chosen index into two chunks which run in a solver-chosen order,
//! each chunk on a solver-chosen "worker thread index"; results are assembled in index order.
//! `ThreadPool::spawn` parks the closure in a one-slot mailbox the harness runs when it chooses.
#![allow(clippy::all)]

use std::cell::UnsafeCell;

// ------------------------------------------------------------------------------------------
// solver choices (under Kani) / fixed choices (native builds of the shim are only used by tests)
// ------------------------------------------------------------------------------------------
#[cfg(kani)]
fn choose_bool() -> bool {
    kani::any()
}
#[cfg(not(kani))]
fn choose_bool() -> bool {
    false
}
#[cfg(kani)]
fn choose_upto(n: usize) -> usize {
    let k: usize = kani::any();
    kani::assume(k <= n);
    k
}
#[cfg(not(kani))]
fn choose_upto(n: usize) -> usize {
    n / 2
}

pub struct Global<T>(UnsafeCell<T>);
unsafe impl<T> Sync for Global<T> {}
impl<T> Global<T> {
    pub const fn new(v: T) -> Self {
        Global(UnsafeCell::new(v))
    }
    #[allow(clippy::mut_from_ref)]
    pub fn get(&self) -> &mut T {
        unsafe { &mut *self.0.get() }
    }
}

/// number of threads of the (single) pool and the index the current "worker" runs under
pub static VERIF_THREADS: Global<usize> = Global::new(1);
pub static VERIF_CUR: Global<Option<usize>> = Global::new(None);
/// when set, chunk splits and orders are fixed (index order, no split) - used by harnesses that
/// need concrete container sizes
pub static VERIF_DETERMINISTIC: Global<bool> = Global::new(false);
/// a fixed chunk plan for the next parallel iterators: Some((split index, run the right chunk first))
pub static VERIF_CHUNK_PLAN: Global<Option<(usize, bool)>> = Global::new(None);

pub fn current_thread_index() -> Option<usize> {
    *VERIF_CUR.get()
}

pub fn current_num_threads() -> usize {
    *VERIF_THREADS.get()
}

fn pick_thread() -> usize {
    let n = *VERIF_THREADS.get();
    if n <= 1 || *VERIF_DETERMINISTIC.get() {
        0
    } else {
        let k = choose_upto(n - 1);
        k
    }
}

pub fn join<A, B, RA, RB>(a: A, b: B) -> (RA, RB)
where
    A: FnOnce() -> RA + Send,
    B: FnOnce() -> RB + Send,
    RA: Send,
    RB: Send,
{
    let saved = *VERIF_CUR.get();
    let res = if !*VERIF_DETERMINISTIC.get() && choose_bool() {
        *VERIF_CUR.get() = Some(pick_thread());
        let rb = b();
        *VERIF_CUR.get() = Some(pick_thread());
        let ra = a();
        (ra, rb)
    } else {
        *VERIF_CUR.get() = Some(pick_thread());
        let ra = a();
        *VERIF_CUR.get() = Some(pick_thread());
        let rb = b();
        (ra, rb)
    };
    *VERIF_CUR.get() = saved;
    res
}

// ------------------------------------------------------------------------------------------
// thread pool
// ------------------------------------------------------------------------------------------
pub struct ThreadPoolBuildError;
impl std::fmt::Debug for ThreadPoolBuildError {
    fn fmt(&self, f: &mut std::fmt::Formatter<'_>) -> std::fmt::Result {
        f.write_str("ThreadPoolBuildError")
    }
}

pub struct ThreadPoolBuilder {
    threads: usize,
}

impl ThreadPoolBuilder {
    pub fn new() -> Self {
        ThreadPoolBuilder { threads: 1 }
    }
    pub fn thread_name<F>(self, _f: F) -> Self
    where
        F: FnMut(usize) -> String + 'static,
    {
        // thread names are formatting only: the closure is never called
        self
    }
    pub fn num_threads(mut self, n: usize) -> Self {
        self.threads = n;
        self
    }
    pub fn build(self) -> Result<ThreadPool, ThreadPoolBuildError> {
        *VERIF_THREADS.get() = if self.threads == 0 { 1 } else { self.threads };
        Ok(ThreadPool { _threads: self.threads })
    }
}

pub struct ThreadPool {
    _threads: usize,
}

type Task = Box<dyn FnOnce() + Send + 'static>;
pub static VERIF_PENDING: Global<Option<Task>> = Global::new(None);
pub static VERIF_SPAWNED: Global<usize> = Global::new(0);

impl ThreadPool {
    pub fn spawn<F>(&self, f: F)
    where
        F: FnOnce() + Send + 'static,
    {
        let slot = VERIF_PENDING.get();
        assert!(slot.is_none(), "ENGINE rayon shim: more than one pool task pending (outside the model)");
        *slot = Some(Box::new(f));
        *VERIF_SPAWNED.get() += 1;
    }
}

/// is a spawned task waiting to run?
pub fn verif_pending() -> bool {
    VERIF_PENDING.get().is_some()
}

/// run the pending pool task to completion on "worker thread" `idx` (harness only)
pub fn verif_run_pending() -> bool {
    match VERIF_PENDING.get().take() {
        Some(t) => {
            let saved = *VERIF_CUR.get();
            *VERIF_CUR.get() = Some(pick_thread());
            t();
            *VERIF_CUR.get() = saved;
            true
        }
        None => false,
    }
}

// ------------------------------------------------------------------------------------------
// parallel iterators (only the shapes nucleo uses)
// ------------------------------------------------------------------------------------------
pub mod iter {
    use super::*;

    pub mod plumbing {
        /// A consumer folds a run of items (one chunk) into a partial result; partial results of
        /// the two chunks are reduced in INDEX order.
        pub trait Consumer<Item>: Sized {
            type Result;
            fn split(&self) -> Self;
            fn consume_iter<I: Iterator<Item = Item>>(self, iter: I) -> Self::Result;
            fn reduce(left: Self::Result, right: Self::Result) -> Self::Result;
            /// should remaining items be skipped (take_any_while after a failed predicate)?
            fn full(&self) -> bool {
                false
            }
        }
        pub trait UnindexedConsumer<Item>: Consumer<Item> {}
        impl<Item, C: Consumer<Item>> UnindexedConsumer<Item> for C {}

        pub trait Producer: Send + Sized {
            type Item;
            type IntoIter: Iterator<Item = Self::Item> + DoubleEndedIterator + ExactSizeIterator;
            fn into_iter(self) -> Self::IntoIter;
            fn split_at(self, index: usize) -> (Self, Self);
        }

        pub trait ProducerCallback<T> {
            type Output;
            fn callback<P>(self, producer: P) -> Self::Output
            where
                P: Producer<Item = T>;
        }

        struct BridgeCallback<C> {
            len: usize,
            consumer: C,
        }

        impl<T, C: Consumer<T>> ProducerCallback<T> for BridgeCallback<C> {
            type Output = C::Result;
            fn callback<P>(self, producer: P) -> C::Result
            where
                P: Producer<Item = T>,
            {
                super::super::run_two_chunks(producer, self.len, self.consumer)
            }
        }

        pub fn bridge<I, C>(par_iter: I, consumer: C) -> C::Result
        where
            I: super::IndexedParallelIterator,
            C: Consumer<I::Item>,
        {
            let len = par_iter.len();
            par_iter.with_producer(BridgeCallback { len, consumer })
        }
    }

    use plumbing::*;

    pub trait ParallelIterator: Sized + Send {
        type Item: Send;
        fn drive_unindexed<C>(self, consumer: C) -> C::Result
        where
            C: UnindexedConsumer<Self::Item>;
        fn opt_len(&self) -> Option<usize> {
            None
        }
        fn map<F, R>(self, f: F) -> Map<Self, F>
        where
            F: Fn(Self::Item) -> R + Sync + Send,
            R: Send,
        {
            Map { base: self, f }
        }
        fn for_each<F>(self, f: F)
        where
            F: Fn(Self::Item) + Sync + Send,
        {
            self.drive_unindexed(ForEach { f: &f })
        }
        fn take_any_while<P>(self, p: P) -> TakeAnyWhile<Self, P>
        where
            P: Fn(&Self::Item) -> bool + Sync + Send,
        {
            TakeAnyWhile { base: self, p }
        }
    }

    pub trait IndexedParallelIterator: ParallelIterator {
        fn len(&self) -> usize;
        fn drive<C: Consumer<Self::Item>>(self, consumer: C) -> C::Result;
        fn with_producer<CB: ProducerCallback<Self::Item>>(self, callback: CB) -> CB::Output;
    }

    // ---- for_each
    pub struct ForEach<'f, F> {
        f: &'f F,
    }
    impl<'f, T, F: Fn(T) + Sync> Consumer<T> for ForEach<'f, F> {
        type Result = ();
        fn split(&self) -> Self {
            ForEach { f: self.f }
        }
        fn consume_iter<I: Iterator<Item = T>>(self, iter: I) {
            for x in iter {
                (self.f)(x)
            }
        }
        fn reduce(_: (), _: ()) {}
    }

    // ---- map
    pub struct Map<I, F> {
        base: I,
        f: F,
    }
    pub struct MapConsumer<'f, C, F> {
        base: C,
        f: &'f F,
    }
    impl<'f, T, R, C: Consumer<R>, F: Fn(T) -> R + Sync> Consumer<T> for MapConsumer<'f, C, F> {
        type Result = C::Result;
        fn split(&self) -> Self {
            MapConsumer { base: self.base.split(), f: self.f }
        }
        fn consume_iter<I: Iterator<Item = T>>(self, iter: I) -> C::Result {
            let f = self.f;
            self.base.consume_iter(iter.map(|x| f(x)))
        }
        fn reduce(l: C::Result, r: C::Result) -> C::Result {
            C::reduce(l, r)
        }
        fn full(&self) -> bool {
            self.base.full()
        }
    }
    impl<I: ParallelIterator, R: Send, F: Fn(I::Item) -> R + Sync + Send> ParallelIterator for Map<I, F> {
        type Item = R;
        fn drive_unindexed<C>(self, consumer: C) -> C::Result
        where
            C: UnindexedConsumer<R>,
        {
            let f = self.f;
            self.base.drive_unindexed(MapConsumer { base: consumer, f: &f })
        }
        fn opt_len(&self) -> Option<usize> {
            self.base.opt_len()
        }
    }

    // ---- take_any_while: once the predicate has failed (anywhere), further items MAY be skipped
    pub struct TakeAnyWhile<I, P> {
        base: I,
        p: P,
    }
    pub struct TakeAnyWhileConsumer<'p, C, P> {
        base: C,
        p: &'p P,
        failed: &'p std::cell::Cell<bool>,
    }
    impl<'p, T, C: Consumer<T>, P: Fn(&T) -> bool + Sync> Consumer<T> for TakeAnyWhileConsumer<'p, C, P> {
        type Result = C::Result;
        fn split(&self) -> Self {
            TakeAnyWhileConsumer { base: self.base.split(), p: self.p, failed: self.failed }
        }
        fn consume_iter<I: Iterator<Item = T>>(self, iter: I) -> C::Result {
            let p = self.p;
            let failed = self.failed;
            self.base.consume_iter(iter.take_while(move |x| {
                if failed.get() {
                    return false;
                }
                let ok = p(x);
                if !ok {
                    failed.set(true);
                }
                ok
            }))
        }
        fn reduce(l: C::Result, r: C::Result) -> C::Result {
            C::reduce(l, r)
        }
    }
    impl<I: ParallelIterator, P: Fn(&I::Item) -> bool + Sync + Send> ParallelIterator for TakeAnyWhile<I, P> {
        type Item = I::Item;
        fn drive_unindexed<C>(self, consumer: C) -> C::Result
        where
            C: UnindexedConsumer<I::Item>,
        {
            let failed = std::cell::Cell::new(false);
            let p = self.p;
            self.base.drive_unindexed(TakeAnyWhileConsumer { base: consumer, p: &p, failed: &failed })
        }
    }

    // ---- par_iter_mut on slices / Vec
    pub struct IterMut<'a, T: Send> {
        slice: &'a mut [T],
    }
    pub struct IterMutProducer<'a, T: Send> {
        slice: &'a mut [T],
    }
    impl<'a, T: Send + 'a> Producer for IterMutProducer<'a, T> {
        type Item = &'a mut T;
        type IntoIter = std::slice::IterMut<'a, T>;
        fn into_iter(self) -> Self::IntoIter {
            self.slice.iter_mut()
        }
        fn split_at(self, index: usize) -> (Self, Self) {
            let (l, r) = self.slice.split_at_mut(index);
            (IterMutProducer { slice: l }, IterMutProducer { slice: r })
        }
    }
    impl<'a, T: Send + 'a> ParallelIterator for IterMut<'a, T> {
        type Item = &'a mut T;
        fn drive_unindexed<C>(self, consumer: C) -> C::Result
        where
            C: UnindexedConsumer<Self::Item>,
        {
            bridge(self, consumer)
        }
        fn opt_len(&self) -> Option<usize> {
            Some(self.slice.len())
        }
    }
    impl<'a, T: Send + 'a> IndexedParallelIterator for IterMut<'a, T> {
        fn len(&self) -> usize {
            self.slice.len()
        }
        fn drive<C: Consumer<Self::Item>>(self, consumer: C) -> C::Result {
            bridge(self, consumer)
        }
        fn with_producer<CB: ProducerCallback<Self::Item>>(self, callback: CB) -> CB::Output {
            callback.callback(IterMutProducer { slice: self.slice })
        }
    }

    pub trait IntoParallelRefMutIterator<'data> {
        type Iter: ParallelIterator<Item = Self::Item>;
        type Item: Send + 'data;
        fn par_iter_mut(&'data mut self) -> Self::Iter;
    }
    impl<'data, T: Send + 'data> IntoParallelRefMutIterator<'data> for Vec<T> {
        type Iter = IterMut<'data, T>;
        type Item = &'data mut T;
        fn par_iter_mut(&'data mut self) -> Self::Iter {
            IterMut { slice: self.as_mut_slice() }
        }
    }
    impl<'data, T: Send + 'data> IntoParallelRefMutIterator<'data> for [T] {
        type Iter = IterMut<'data, T>;
        type Item = &'data mut T;
        fn par_iter_mut(&'data mut self) -> Self::Iter {
            IterMut { slice: self }
        }
    }

    // ---- par_extend: results of the chunks are appended in index order
    pub struct CollectVec;
    impl<T> Consumer<T> for CollectVec {
        type Result = Vec<T>;
        fn split(&self) -> Self {
            CollectVec
        }
        fn consume_iter<I: Iterator<Item = T>>(self, iter: I) -> Vec<T> {
            // a concrete initial capacity keeps the growth path of the first pushes out of the
            // symbolic execution (the harnesses collect a handful of entries)
            let mut v = Vec::with_capacity(8);
            for x in iter {
                v.push(x)
            }
            v
        }
        fn reduce(mut l: Vec<T>, r: Vec<T>) -> Vec<T> {
            for x in r {
                l.push(x)
            }
            l
        }
    }
    pub trait ParallelExtend<T: Send> {
        fn par_extend<I>(&mut self, par_iter: I)
        where
            I: ParallelIterator<Item = T>;
    }
    impl<T: Send> ParallelExtend<T> for Vec<T> {
        fn par_extend<I>(&mut self, par_iter: I)
        where
            I: ParallelIterator<Item = T>,
        {
            let part = par_iter.drive_unindexed(CollectVec);
            for x in part {
                self.push(x)
            }
        }
    }
}

/// the heart of the model: two chunks, solver-chosen split and order, results in index order
pub(crate) fn run_two_chunks<P, C>(producer: P, len: usize, consumer: C) -> C::Result
where
    P: iter::plumbing::Producer,
    C: iter::plumbing::Consumer<P::Item>,
{
    use iter::plumbing::Consumer;
    let saved = *VERIF_CUR.get();
    let plan = *VERIF_CHUNK_PLAN.get();
    let res = if (plan.is_none() && *VERIF_DETERMINISTIC.get()) || len < 2 {
        *VERIF_CUR.get() = Some(pick_thread());
        consumer.consume_iter(producer.into_iter())
    } else {
        let (at, right_first) = match plan {
            Some((at, rf)) => (if at > len { len } else { at }, rf),
            None => (choose_upto(len), choose_bool()),
        };
        let (l, r) = producer.split_at(at);
        let (cl, cr) = (consumer.split(), consumer);
        if right_first {
            *VERIF_CUR.get() = Some(pick_thread());
            let rr = cr.consume_iter(r.into_iter());
            *VERIF_CUR.get() = Some(pick_thread());
            let rl = cl.consume_iter(l.into_iter());
            C::reduce(rl, rr)
        } else {
            *VERIF_CUR.get() = Some(pick_thread());
            let rl = cl.consume_iter(l.into_iter());
            *VERIF_CUR.get() = Some(pick_thread());
            let rr = cr.consume_iter(r.into_iter());
            C::reduce(rl, rr)
        }
    };
    *VERIF_CUR.get() = saved;
    res
}

pub mod prelude {
    pub use crate::iter::{IndexedParallelIterator, IntoParallelRefMutIterator, ParallelExtend, ParallelIterator};
}
