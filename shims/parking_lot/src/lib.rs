//! Verification shim for `parking_lot` (environment, not subject).
//!
//! Contract assumed: a mutex provides mutual exclusion and a release/acquire edge between an
//! unlock and the next lock; `try_lock_arc_for(d)` either acquires within `d` or returns None.
//!
//! Model: one thread (the harness plays every thread in turn). A lock that is "held" by a parked
//! background task cannot be waited for by spinning, so contention is resolved by *hooks* the
//! harness installs:
//!   * `lock_arc()` / `lock()` on a held mutex calls `VERIF_ON_BLOCK` (the harness lets the holder -
//!     the parked pool task - run to completion, which releases the lock), then acquires.
//!   * `try_lock_arc_for()` on a held mutex calls `VERIF_ON_TIMED` which returns one of
//!       Acquire  - the holder finished within the time-out (hook has run it): lock acquired
//!       TimeOut  - time-out; the holder is still running when the caller continues
//!     (a third outcome - time-out, and the holder finishes immediately afterwards, before the
//!     caller's next instruction - is produced by the harness running the holder right after the
//!     call returns; see the C13 harness).
#![allow(clippy::all)]

use std::cell::UnsafeCell;
use std::ops::{Deref, DerefMut};
use std::sync::Arc;
use std::time::Duration;

pub struct Global<T>(UnsafeCell<T>);
unsafe impl<T> Sync for Global<T> {}
impl<T> Global<T> {
    pub const fn new(v: T) -> Self {
        Global(UnsafeCell::new(v))
    }
    #[allow(clippy::mut_from_ref)]
    pub fn get(&self) -> &mut T {
        unsafe { &mut *self.0.get() }
    }
}

#[derive(Clone, Copy, PartialEq, Eq)]
pub enum Timed {
    /// the holder finished within the time-out (the hook has run it): lock acquired
    Acquire,
    /// time-out; the holder is still running when the caller continues
    TimeOut,
    /// time-out, and the holder finishes right after the attempt was given up - before the
    /// caller executes its next instruction (the hook has run it): the attempt still fails
    TimeOutHolderDone,
}

/// Outcomes of the successive timed lock attempts on a HELD mutex, base-3 digits (first attempt =
/// lowest digit): 0 Acquire, 1 TimeOut, 2 TimeOutHolderDone. Set by the harness. (No function
/// pointer hooks: CBMC's function-pointer removal made every run with installed hooks report
/// spurious invalid pointers.)
pub static VERIF_TIMED_SEQ: Global<u32> = Global::new(0);
/// ghost: how many timed attempts ended as TimeOutHolderDone
pub static VERIF_HOLDER_DONE: Global<usize> = Global::new(0);

fn next_timed() -> Timed {
    let s = VERIF_TIMED_SEQ.get();
    let k = *s % 3;
    *s /= 3;
    match k {
        0 => {
            let ran = rayon::verif_run_pending();
            assert!(ran, "ENGINE timed lock on a held mutex but no pool task is pending");
            Timed::Acquire
        }
        1 => Timed::TimeOut,
        _ => {
            let ran = rayon::verif_run_pending();
            assert!(ran, "ENGINE timed lock on a held mutex but no pool task is pending");
            *VERIF_HOLDER_DONE.get() += 1;
            Timed::TimeOutHolderDone
        }
    }
}
/// number of lock acquisitions / failed timed attempts (ghost counters for the harness)
pub static VERIF_ACQUIRED: Global<usize> = Global::new(0);
pub static VERIF_TIMEOUTS: Global<usize> = Global::new(0);

pub struct RawMutex;

/// The protected value lives in its own heap allocation. (With the value stored inline, the
/// `Arc<Mutex<Worker>>` allocation is one large untyped byte object for CBMC, and symbolic
/// execution of anything that reads vector lengths out of it either does not finish or - with a
/// larger --max-field-sensitivity-array-size - reports spurious invalid pointers; a value boxed
/// on its own behaves. Measured with the probes recorded in DESIGN.md.)
pub struct Mutex<T: ?Sized> {
    held: UnsafeCell<bool>,
    data: Box<UnsafeCell<T>>,
}
unsafe impl<T: ?Sized + Send> Send for Mutex<T> {}
unsafe impl<T: ?Sized + Send> Sync for Mutex<T> {}

impl<T> Mutex<T> {
    pub fn new(v: T) -> Self {
        Mutex { held: UnsafeCell::new(false), data: Box::new(UnsafeCell::new(v)) }
    }
}

impl<T: ?Sized> Mutex<T> {
    fn held(&self) -> &mut bool {
        unsafe { &mut *self.held.get() }
    }
    pub fn is_locked(&self) -> bool {
        *self.held()
    }
    fn wait_for_holder(&self) {
        if *self.held() {
            // a blocked thread lets the holder - the parked pool task - run to completion
            let ran = rayon::verif_run_pending();
            assert!(ran, "ENGINE parking_lot shim: blocking on a held lock with no holder to run (deadlock in the model)");
            assert!(!*self.held(), "ENGINE parking_lot shim: holder did not release the lock");
        }
    }
    pub fn lock(&self) -> MutexGuard<'_, T> {
        self.wait_for_holder();
        *self.held() = true;
        *VERIF_ACQUIRED.get() += 1;
        MutexGuard { m: self }
    }
    pub fn try_lock_for(&self, _d: Duration) -> Option<MutexGuard<'_, T>> {
        if *self.held() {
            let o = next_timed();
            if o != Timed::Acquire || *self.held() {
                *VERIF_TIMEOUTS.get() += 1;
                return None;
            }
        }
        *self.held() = true;
        *VERIF_ACQUIRED.get() += 1;
        Some(MutexGuard { m: self })
    }
    pub fn lock_arc(self: &Arc<Self>) -> ArcMutexGuard<RawMutex, T> {
        self.wait_for_holder();
        *self.held() = true;
        *VERIF_ACQUIRED.get() += 1;
        ArcMutexGuard { m: Arc::as_ptr(self), _raw: std::marker::PhantomData }
    }
    pub fn try_lock_arc_for(self: &Arc<Self>, _d: Duration) -> Option<ArcMutexGuard<RawMutex, T>> {
        if *self.held() {
            let o = next_timed();
            if o != Timed::Acquire || *self.held() {
                *VERIF_TIMEOUTS.get() += 1;
                return None;
            }
        }
        *self.held() = true;
        *VERIF_ACQUIRED.get() += 1;
        Some(ArcMutexGuard { m: Arc::as_ptr(self), _raw: std::marker::PhantomData })
    }
}

pub struct MutexGuard<'a, T: ?Sized> {
    m: &'a Mutex<T>,
}
impl<T: ?Sized> Deref for MutexGuard<'_, T> {
    type Target = T;
    fn deref(&self) -> &T {
        unsafe { &*self.m.data.get() }
    }
}
impl<T: ?Sized> DerefMut for MutexGuard<'_, T> {
    fn deref_mut(&mut self) -> &mut T {
        unsafe { &mut *self.m.data.get() }
    }
}
impl<T: ?Sized> Drop for MutexGuard<'_, T> {
    fn drop(&mut self) {
        *self.m.held() = false;
    }
}

/// The real guard owns a clone of the Arc. The model keeps a plain pointer instead: every harness
/// keeps the owning Arc alive for the whole scenario, and reference-count traffic on the mutex
/// (whose last drop would run the whole drop glue of the protected value on every symbolic path)
/// is not what any property is about.
pub struct ArcMutexGuard<R, T: ?Sized> {
    m: *const Mutex<T>,
    _raw: std::marker::PhantomData<R>,
}
unsafe impl<R, T: ?Sized + Send> Send for ArcMutexGuard<R, T> {}
impl<R, T: ?Sized> Deref for ArcMutexGuard<R, T> {
    type Target = T;
    fn deref(&self) -> &T {
        unsafe { &*(*self.m).data.get() }
    }
}
impl<R, T: ?Sized> DerefMut for ArcMutexGuard<R, T> {
    fn deref_mut(&mut self) -> &mut T {
        unsafe { &mut *(*self.m).data.get() }
    }
}
impl<R, T: ?Sized> Drop for ArcMutexGuard<R, T> {
    fn drop(&mut self) {
        unsafe { *(*self.m).held() = false };
    }
}
