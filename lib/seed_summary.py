#!/usr/bin/env python3
"""Regenerates /verif/seeded/SUMMARY.md from the seeds' meta.json files."""
import json, os, glob
rows = []
for d in sorted(glob.glob("/verif/seeded/*/")):
    mp = d + "meta.json"
    if not os.path.exists(mp):
        continue
    m = json.load(open(mp))
    cr = m.get("check_results", {})
    det = m.get("detected_by") or []
    res = "; ".join("%s: exit %s (%ss, %s tier)" % (p, v["exit"], v.get("wall_s", "?"), v.get("tier", "quick")) for p, v in sorted(cr.items())) or "not evaluated yet"
    rows.append((m["seed"], m["property"], ", ".join(det) if det else ("MISSED" if cr else "-"), res, m.get("miss_reason", "")))
out = ["# Seeded changes and the checks that catch them", "",
       "Each seed: patch.diff, demo.rs (fails with the change, passes without), notes.md (what it needs to manifest), meta.json.",
       "`python3 lib/seed_eval.py <seed> [property ...]` applies the seed in a scratch worktree of /repo and runs the registered check against it.", "",
       "| seed | property | caught by | runs | if missed: why |", "|---|---|---|---|---|"]
for r in rows:
    out.append("| %s | %s | %s | %s | %s |" % r)
open("/verif/seeded/SUMMARY.md", "w").write("\n".join(out) + "\n")
print("\n".join(out))
