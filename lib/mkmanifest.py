#!/usr/bin/env python3
"""Regenerates /verif/MANIFEST.json from lib/manifest_data.py (single source of truth)."""
import json, os, sys
sys.path.insert(0, os.path.dirname(os.path.abspath(__file__)))
import manifest_data as md
V = os.path.dirname(os.path.dirname(os.path.abspath(__file__)))
checks = []
for pid in sorted(md.CHECKS):
    c = md.CHECKS[pid]
    checks.append({
        "property_id": pid,
        "quick_cmd": "./check %s --tier quick" % pid,
        "thorough_cmd": "./check %s --tier thorough" % pid,
        "evidence_file": "/verif/evidence/%s.json" % pid,
        "replay_cmd_template": "./check %s --replay {path}" % pid,
        "engine": c["engine"],
        "level_claimed": {"category": "model_checking", "text": c["text"], "design_ref": c["design_ref"]},
        "level_note": c["note"],
        "technique": c["technique"],
    })
na = [{"property_id": p, "reason": r} for p, r in sorted(md.NOT_APPLICABLE.items()) if p not in md.CHECKS]
m = {
    "version": 1,
    "setup_cmd": md.SETUP,
    "hooks": md.HOOKS,
    "engines": md.ENGINES,
    "checks": checks,
    "notes": md.NOTES,
    "not_applicable": na,
}
json.dump(m, open(V + "/MANIFEST.json", "w"), indent=1)
print("wrote MANIFEST.json: %d checks, %d not_applicable" % (len(checks), len(na)))
