"""Property registry: which engine / harness instances decide which property, and the verdict logic."""
import json, os, re, sys, time, random, shutil
import engine
from engine import log, VERIF
import matcher_props
import nucleo_props

QUICK = {
    "C01": [r"prefilter_ascii_h4_n2", r"prefilter_ascii_h5_n3", r"prefilter_uni_h4_n2_(un|an)", r"optimal_ascii_h4_n2_w0_4_path", r"optimal_ascii_h4_n2_w1_4_dflt",
            r"optimal_uni_h4_n2_w0_4_un", r"greedy_ascii_h4_n2_s0_g3", r"greedy_ascii_h5_n3_s1_g5", r"greedy_uni_h4_n2_s0_un", r"fuzzy1_ascii_h3_dflt",
            r"dispatch_h4_n2_(aa|ua|uu)_optimal_score", r"dispatch_h4_n2_(aa|uu)_greedy_idx", r"dispatch_h3_n3_ua_greedy_idx", r"repr_fuzzy_h2_n1", r"repr_exact_h2_n2", r"latin1_model_agrees_h"],
    "C02": [r"optimal_ascii_h4_n2_w0_4_path", r"optimal_ascii_h3_n2_w0_3_dflt", r"score_window_ascii_h4_n2_w0_4", r"score_window_ascii_h5_n3_w1_5", r"substring_ascii_h4_n3_path_cs",
            r"prefix_ascii_h4_n2_path", r"postfix_ascii_h5_n3_dflt", r"exact_ascii_h3_n3_dflt", r"prefix_uni_h4_n2_un", r"exact_uni_h3_n3_un", r"optimal_uni_h4_n2_w1_4_an",
            r"fuzzy1_ascii_h5_path", r"fuzzy1_uni_h3_un_dflt", r"dispatch_h4_n2_(aa|ua)_optimal_idx", r"substring_uni_h3_n1_(un|an)", r"substring_ascii_h3_n1_.*_cs", r"latin1_model_agrees_h"],
    "C03": [r"optimal_ascii_h4_n2_w1_4_dflt", r"optimal_ascii_h4_n2_w0_3_path", r"greedy_ascii_h4_n2_s1_g4", r"greedy_ascii_h5_n3_s0_g5", r"score_window_ascii_h4_n2_w1_3",
            r"score_window_ascii_h5_n3_w0_3", r"prefix_penalty_starts_h", r"exact_ascii_h4_n2_path", r"substring_ascii_h5_n3_dflt_cs",
            r"fuzzy1_ascii_h3_path", r"greedy_uni_h5_n3_s1_an", r"postfix_uni_h4_n2_an", r"repr_exact_h2_n2", r"latin1_model_agrees_h"],
    "C04": [r"optimal_ascii_h3_n2_w0_3_dflt", r"optimal_ascii_h4_n2_w0_4_path", r"optimal_ascii_h4_n2_w1_4_dflt", r"optimal_uni_h4_n2_w0_4_un", r"fuzzy1_ascii_h3_(dflt|path)",
            r"fuzzy1_ascii_h5_(dflt|path)", r"fuzzy1_uni_h3_un_(dflt|path)", r"fuzzy1_uni_h4_an_path", r"latin1_model_agrees_h"],
    "C05": [r"substring_ascii_h4_n2_dflt_ic", r"substring_ascii_h4_n[23]_(dflt|path)_cs", r"prefix_ascii_.*", r"postfix_ascii_.*", r"exact_ascii_h3_n3_dflt", r"exact_ascii_h4_n2_path",
            r"substring_uni_h4_n2_an", r"substring_uni_h3_n1_un", r"prefix_uni_h4_n2_un", r"postfix_uni_h4_n2_an", r"exact_uni_h3_n3_un", r"latin1_model_agrees_h"],
    "C10": [r"layout_real_(ascii|char)", r"optimal_ascii_h4_n2_w0_3_path", r"optimal_ascii_h3_n2_w0_3_dflt", r"greedy_ascii_h5_n2_s0_g4", r"score_window_ascii_h5_n2_w0_5",
            r"prefilter_ascii_h4_n3", r"substring_ascii_h5_n3_dflt_cs", r"exact_ascii_h4_n3_path", r"prefix_penalty_starts_h",
            r"optimal_uni_h4_n2_w1_4_an", r"greedy_uni_h4_n2_s0_un", r"fuzzy1_uni_h4_an_dflt", r"prefilter_uni_h4_n2_an", r"latin1_model_agrees_h"],
}

PROP_RE = re.compile(r"^(C\d\d)\b")

# Failure classes that are *engine* problems, never verdicts about the code
ENGINE_NOISE = ("unwinding assertion",)


def relevant(pid, desc, safety_owner):
    """Does a failed check `desc` speak about property `pid`?
    Assertions written in the harnesses start with the property id. Everything else (Kani's own
    overflow / bounds / pointer / panic checks inside the code under test) belongs to the property
    that owns totality and memory safety for that engine (`safety_owner`)."""
    m = PROP_RE.match(desc)
    if m:
        return m.group(1) == pid
    return pid == safety_owner


class KaniProp:
    def __init__(self, package, instances_fn, safety_owner, shims=("memchr",), small=True,
                 functions=(), assumptions=(), outside=(), extra_args=(), quick_cap_s=1500,
                 thorough_cap_s=3 * 3600, mem_cap_gb=12, test_path="verif::replay::run", selftest=False, gen_mod=None, replay_with_shims=False):
        self.selftest = selftest
        self.replay_with_shims = replay_with_shims
        self.gen_mod = gen_mod or matcher_props
        self.package = package
        self.instances_fn = instances_fn
        self.safety_owner = safety_owner
        self.shims = shims
        self.small = small
        self.functions = list(functions)
        self.assumptions = list(assumptions)
        self.outside = list(outside)
        self.extra_args = list(extra_args)
        self.quick_cap_s = quick_cap_s
        self.thorough_cap_s = thorough_cap_s
        self.mem_cap_gb = mem_cap_gb
        self.test_path = test_path

    def run(self, pid, tier, seed, args):
        t0 = time.time()
        all_insts = self.gen_mod.all_instances(tier)
        mine = [i for i in self.instances_fn(tier) if pid in i.props]
        if tier == "quick" and pid in QUICK and not args.only:
            # the quick tier of a property is a hand-picked subset that finishes in a few minutes on
            # 16 cores (the check meant to run on every change); the thorough tier runs everything
            wl = QUICK[pid]
            mine = [i for i in mine if any(re.fullmatch(rx, i.name) for rx in wl)]
        if args.only:
            mine = [i for i in mine if re.search(args.only, i.name)]
        rnd = random.Random(seed)
        rnd.shuffle(mine)  # VERIF_SEED permutes scheduling order (and, for the thorough tier, which instances are selected)
        self.not_selected = []
        maxi = int(os.environ.get("VERIF_THOROUGH_MAX_INSTANCES", "150"))
        if tier != "quick" and not args.only and len(mine) > maxi:
            # Kani's code generation costs 2 - 7 s per harness: a run is limited to `maxi` instances, chosen by the seed
            self.not_selected = ["%s: not selected under seed %s (VERIF_THOROUGH_MAX_INSTANCES=%d)" % (i.name, seed, maxi) for i in mine[maxi:]]
            mine = mine[:maxi]
        if not mine:
            print("no harness instances for %s" % pid)
            return 2
        sc = engine.Scratch(pid, shims=self.shims, keep=args.keep)
        try:
            return self._run(pid, tier, seed, args, sc, all_insts, mine, t0)
        finally:
            sc.close()

    def _run(self, pid, tier, seed, args, sc, all_insts, mine, t0):
        sc.need_score_table = any(getattr(i, "family", None) == "nucleo_scored" for i in mine)
        self.gen_meta = self.gen_mod.write_gen(sc, tier)
        self.oracle_ok = 0
        if self.selftest:
            n = engine.oracle_selftest(sc, self.package, small=self.small)
            if n is None:
                print("INCONCLUSIVE: the oracle disagrees with the expectations of the repository's own test suite")
                self._evidence(pid, tier, seed, mine, {}, t0, 0, ["oracle selftest failed"], [])
                return 2
            self.oracle_ok = n
            log("[%s] oracle validated against %d vectors of the repo's test suite" % (pid, n))
        jobs = args.jobs or min(engine.NCPU, len(mine))
        # quick: a calibrated whitelist, every instance must reach a verdict within the cap.
        # thorough: a wall-clock budget (VERIF_THOROUGH_BUDGET_S, default 40 min) for starting instances and a cap per
        # instance; what is not started in time, runs out of time or out of memory is reported as NOT EXPLORED in the
        # evidence and neither passes nor fails (exit 0 speaks for what was explored, as the interface defines it)
        budget = int(os.environ.get("VERIF_THOROUGH_BUDGET_S", "2400"))
        per = None if tier == "quick" else int(os.environ.get("VERIF_THOROUGH_INSTANCE_CAP_S", "1200"))
        cap = self.quick_cap_s if tier == "quick" else min(self.thorough_cap_s, budget)
        names = [i.name for i in mine]
        log("[%s] %d harness instances, -j %d, cap %ds" % (pid, len(names), jobs, cap))
        try:
            pre = lambda sm: self.gen_mod.write_gen(sc, tier, small=sm)
            results, wall, logp = engine.run_kani(sc, self.package, mine, jobs, cap, small=self.small,
                                                  extra_args=self.extra_args, mem_cap_gb=self.mem_cap_gb, pre_codegen=pre,
                                                  per_harness_timeout_s=per)
        except engine.BuildError as e:
            print("BUILD-ERROR (inconclusive):\n%s" % e)
            self._evidence(pid, tier, seed, mine, {}, t0, 0, [], ["build error"])
            return 2
        inconclusive = []
        self.not_explored = list(getattr(self, "not_selected", []))
        violations = []   # (inst, desc, replay_path)
        known = []
        kf = engine.load_known_findings()
        for inst in mine:
            r = results[inst.name]
            if tier != "quick" and (r.status == "timeout" or (r.status == "error" and "killed" in (getattr(r, "note", "") or ""))):
                self.not_explored.append("%s: %s (%s)" % (inst.name, r.status, getattr(r, "note", "") or "instance cap / budget"))
                continue
            if r.status in ("timeout", "error", "missing", "unwind"):
                inconclusive.append("%s: %s" % (inst.name, r.status))
                continue
            exp = getattr(inst, "expect_fail", None)
            if exp:
                # this instance must END in a documented assertion of the code under test
                hit = [f for f in r.failed if re.search(exp, f[0])]
                r.failed = [f for f in r.failed if not re.search(exp, f[0])]
                if not hit:
                    log("[%s] %s: the expected assertion (%s) was NOT violated" % (pid, inst.name, exp))
                    verdict = self._replay_empty(pid, sc, inst)
                    if verdict[0] == "violation":
                        violations.append((inst, verdict[2], verdict[1]))
                    else:
                        inconclusive.append("%s: expected assertion not violated and native run did not confirm (%s)" % (inst.name, verdict[1]))
                    continue
                r.covers = {k: ("SATISFIED" if k.startswith("END") else v) for k, v in r.covers.items()}
                if not any(k.startswith("END") for k in r.covers):
                    r.covers["END (expected assertion reached)"] = "SATISFIED"
            eng = [d for (d, l, i) in r.failed if d.startswith("ENGINE")]
            if eng:
                inconclusive.append("%s: %s" % (inst.name, eng[0]))
                continue
            rel = [(d, l, i) for (d, l, i) in r.failed if relevant(pid, d, self.safety_owner)
                   and not any(n in d for n in ENGINE_NOISE)]
            if not rel:
                # vacuity: the end of every harness must be reachable (a failed check of ANOTHER
                # property also cuts the path, since Kani assumes a condition after asserting it:
                # that property's own check reports it)
                endc = [v for k, v in r.covers.items() if k.startswith("END")]
                if (not endc or any(v != "SATISFIED" for v in endc)) and not r.failed:
                    inconclusive.append("%s: harness end not reachable (vacuous assumptions?)" % inst.name)
                continue
            # a solver counterexample: extract and replay natively before reporting
            log("[%s] %s: %d relevant failed checks, e.g. %s" % (pid, inst.name, len(rel), rel[0][0]))
            verdict = self._replay(pid, sc, inst, rel, r, logp)
            if verdict[0] == "violation":
                kfm = match_known(kf, pid, inst, verdict[2])
                if kfm:
                    known.append((kfm, inst.name, verdict[2]))
                else:
                    violations.append((inst, verdict[2], verdict[1]))
            else:
                inconclusive.append("%s: counterexample for '%s' did not replay natively (%s)" % (inst.name, rel[0][0], verdict[1]))
        # aggregate cover requirement: every named cover satisfied in at least one instance
        cov_all = {}
        for inst in mine:
            for k, v in results[inst.name].covers.items():
                if k.startswith("END") or k.startswith("INFO"):
                    continue
                cov_all[k] = cov_all.get(k, False) or (v == "SATISFIED")
        # known findings are encoded as covers "KNOWN-FINDING <id> ..." whose shape predicate lives in the harness
        kf_ids = {f["id"]: f for f in kf.get("findings", [])}
        for k, v in list(cov_all.items()):
            if k.startswith("KNOWN-FINDING"):
                fid = k.split()[1]
                del cov_all[k]
                if not v:
                    continue
                f = kf_ids.get(fid)
                if f and pid in f["properties"]:
                    known.append((f, "cover", k))
                elif f:
                    pass  # listed, but under another property: that property's check prints it
                else:
                    inconclusive.append("finding shape %s is reachable but not listed in known_findings.json" % fid)
        unsat_covers = [k for k, v in cov_all.items() if not v]
        for kfm, hn, desc in known:
            print("KNOWN-FINDING: property=%s %s [%s: %s]" % (pid, kfm["what"], hn, desc))
        for inst, desc, path in violations:
            print("VIOLATION property=%s replay=%s" % (pid, path))
            print("  harness=%s check=%s" % (inst.name, desc))
        for s in inconclusive:
            print("INCONCLUSIVE: %s" % s)
        covers_fatal = bool(unsat_covers) and not args.only and not self.not_explored
        if unsat_covers and not args.only:
            for k in unsat_covers:
                print(("INCONCLUSIVE: cover never satisfied in any instance: %s" if covers_fatal else
                       "note: cover not satisfied by the instances explored (some instances were not explored): %s") % k)
        self._evidence(pid, tier, seed, mine, results, t0, len(violations), inconclusive, unsat_covers,
                       known, partial=bool(args.only))
        if violations:
            return 1
        if self.not_explored:
            log("[%s] %d instances not explored within the budget (listed in the evidence)" % (pid, len(self.not_explored)))
        if inconclusive or covers_fatal:
            return 2
        if not any(results[i.name].status in ("ok", "failed") for i in mine):
            print("INCONCLUSIVE: no instance ran to a verdict")
            return 2
        return 0

    def _replay(self, pid, sc, inst, rel, r, logdir):
        tapes = engine.extract_tapes(sc, r.symtab, inst.name, inst.unwind, [i for (_, _, i) in rel], logdir,
                                    unwind_rules=getattr(inst, 'unwind_rules', None), extra_cbmc=getattr(inst, 'cbmc_extra', ()))
        if tapes is None or len(tapes) == 0:
            return ("inconclusive", "no counterexample trace produced")
        seen = set()
        last = "no tape reproduced"
        for tape in tapes:
            key = json.dumps(tape)
            if key in seen:
                continue
            seen.add(key)
            ok_profiles = []
            descs = []
            for profile in ("dev", "release"):
                self.gen_mod.write_gen(sc, "quick", extra=[inst], small=getattr(inst, "small", self.small))
                res, out = engine.native_replay(sc, self.package, inst.name, tape, profile, small=getattr(inst, "small", self.small),
                                                test_path=self.test_path, with_shims=self.replay_with_shims)
                failed = re.findall(r"REPLAY-CHECK-FAILED (.*)", out)
                relf = [d for d in failed if relevant(pid, d, self.safety_owner)]
                if res == "violated" and relf:
                    ok_profiles.append(profile); descs = relf
                elif res == "panic" and pid == self.safety_owner:
                    ok_profiles.append(profile); descs = ["panic inside the code under test"]
                else:
                    last = "%s profile: %s" % (profile, res)
            if ok_profiles:
                rdir = os.environ.get("VERIF_REPLAY_DIR", VERIF + "/replays")
                os.makedirs(rdir, exist_ok=True)
                path = rdir + "/%s.%s.json" % (pid, inst.name)
                with open(path, "w") as f:
                    json.dump({"property": pid, "harness": inst.name, "expr": inst.expr, "unwind": inst.unwind,
                               "family": inst.family, "package": self.package, "tape": tape, "small": getattr(inst, "small", self.small),
                               "failed_checks": descs, "profiles_reproduced": ok_profiles,
                               "bounds": inst.bounds}, f, indent=1)
                return ("violation", path, descs[0])
        return ("inconclusive", last)

    def _replay_empty(self, pid, sc, inst):
        """native run on an all-zero tape (for instances whose verdict does not depend on symbolic data)"""
        descs = []
        okp = []
        for profile in ("dev", "release"):
            self.gen_mod.write_gen(sc, "quick", extra=[inst], small=getattr(inst, "small", self.small))
            res, out = engine.native_replay(sc, self.package, inst.name, [], profile, small=getattr(inst, "small", self.small),
                                            test_path=self.test_path, with_shims=self.replay_with_shims)
            failed = re.findall(r"REPLAY-CHECK-FAILED (.*)", out)
            relf = [d for d in failed if relevant(pid, d, self.safety_owner)]
            if res == "violated" and relf:
                okp.append(profile); descs = relf
            last = res
        if okp:
            rdir = os.environ.get("VERIF_REPLAY_DIR", VERIF + "/replays")
            os.makedirs(rdir, exist_ok=True)
            path = rdir + "/%s.%s.json" % (pid, inst.name)
            with open(path, "w") as f:
                json.dump({"property": pid, "harness": inst.name, "expr": inst.expr, "unwind": inst.unwind, "family": inst.family,
                           "package": self.package, "tape": [], "small": getattr(inst, "small", self.small), "failed_checks": descs,
                           "profiles_reproduced": okp, "bounds": inst.bounds}, f, indent=1)
            return ("violation", path, descs[0])
        return ("inconclusive", last)

    def replay(self, path):
        """./check <pid> --replay <file>: rebuild from the current tree and re-run the stored tape natively."""
        rec = json.load(open(path))
        sc = engine.Scratch("replay", shims=self.shims)
        try:
            extra = []
            if rec.get("family"):
                e = matcher_props.Inst(rec["harness"], rec["unwind"], rec["expr"], [rec["property"]], rec.get("bounds", {}), rec["family"])
                e.small = rec.get("small", self.small)
                extra.append(e)
            self.gen_mod.write_gen(sc, "quick", extra, small=rec.get("small", self.small))
            bad = False
            for profile in ("dev", "release"):
                res, out = engine.native_replay(sc, rec["package"], rec["harness"], rec["tape"], profile,
                                                small=rec.get("small", self.small), test_path=self.test_path, with_shims=self.replay_with_shims)
                print("replay %s: %s" % (profile, res))
                for d in re.findall(r"REPLAY-CHECK-FAILED (.*)", out):
                    print("   failed: " + d)
                bad = bad or res in ("violated", "panic")
            return 1 if bad else 0
        finally:
            sc.close()

    def _evidence(self, pid, tier, seed, mine, results, t0, nviol, inconclusive, unsat_covers, known=(), partial=False):
        samples = []
        queries = 0
        solver_s = 0.0
        nontrivial = 0
        for inst in mine:
            r = results.get(inst.name)
            if r is None:
                continue
            queries += r.queries
            solver_s += r.solver_s
            sat = sorted(k for k, v in r.covers.items() if v == "SATISFIED")
            if r.status in ("ok", "failed") and any(k.startswith("END") for k in sat):
                nontrivial += 1
            samples.append({"harness": inst.name, "calls": inst.expr, "bounds": inst.bounds, "unwind": inst.unwind,
                            "status": r.status, "checks": r.checks, "program_steps": r.steps,
                            "sat_vars": r.vars, "sat_clauses": r.clauses, "solver_queries": r.queries,
                            "solver_s": round(r.solver_s, 1), "kani_time_s": round(r.time_s, 1),
                            "covers_satisfied": sat,
                            "failed_checks": [d for d, _, _ in r.failed][:5]})
        coverage = {
            "evaluations": queries,
            "distinct_nontrivial": nontrivial,
            "rule": "evaluations = SAT queries CBMC discharged over the compiled code of /repo (all values of the "
                    "symbolic inputs within each instance's bounds at once); an instance is one concrete shape "
                    "(lengths/window) with every character, the configuration and the scratch pre-state symbolic; "
                    "it counts as non-trivial when its end-of-harness reachability cover is SATISFIED "
                    "(assumptions not vacuous) and it ran to a verdict",
            "samples": samples,
            "harness_instances": len(mine),
            "traces_validated_against_impl": getattr(self, "oracle_ok", 0),
            "generated_reference": getattr(self, "gen_meta", None),
            "functions_encoded": self.functions,
            "bounds": sorted({json.dumps(i.bounds, sort_keys=True) for i in mine}),
            "outside_bounds": self.outside,
            "solver_time_s": round(solver_s, 1),
            "solver": "CBMC 6.11 / CaDiCaL via Kani 0.68",
            "inconclusive": inconclusive,
            "not_explored": getattr(self, "not_explored", []),
            "covers_never_satisfied": unsat_covers,
            "known_findings_reproduced": [k[0]["id"] for k in known],
            "partial_run": partial,
        }
        engine.write_evidence(pid, tier, seed, coverage, self.assumptions, time.time() - t0, nviol)


def match_known(kf, pid, inst, desc):
    for f in kf.get("findings", []):
        if pid not in f.get("properties", []) or "harness_re" not in f:
            continue
        if not re.search(f["harness_re"], inst.name):
            continue
        if not re.search(f["check_re"], desc):
            continue
        return f
    return None


MATCHER_ASSUME = [
    "memchr is replaced by /verif/shims/memchr (naive implementation of the documented contract of the nine items used); native replay uses the real memchr",
    "needles are already normalized for the configuration (documented precondition of the matcher)",
    "scratch geometry shrunk under --cfg nucleo_verif_small (MAX_MATRIX_SIZE 64, MAX_HAYSTACK_LEN 16, MAX_NEEDLE_LEN 16); the arithmetic around the real constants is checked by the layout harnesses of C10",
    "lemma chain: prefilter window facts (P) are assumed by the window harnesses (O, G, S) and established by the prefilter harness",
    "Kani models panic=abort, no unwinding",
]

FUZZY_FUNCS = ["Matcher::prefilter_ascii", "Matcher::fuzzy_match_optimal", "MatcherDataView::setup", "MatcherDataView::score_row",
               "MatcherDataView::populate_matrix", "MatcherDataView::reconstruct_optimal_path", "next_m_cell", "p_score",
               "Matcher::fuzzy_match_greedy_", "Matcher::calculate_score", "Config::bonus_for", "AsciiChar::{char_class, normalize, char_class_and_normalize}",
               "MatrixSlab::alloc", "MatrixLayout::new", "MatrixLayout::fieds_from_ptr"]
FUZZY_OUT = ["haystacks longer than the per-tier H bound and needles longer than the N bound",
             "real-geometry DP runs (claimed via small geometry + layout lemma)"]

fuzzy = KaniProp("nucleo-matcher", matcher_props.fuzzy_instances, "C10", functions=FUZZY_FUNCS,
                 assumptions=MATCHER_ASSUME, outside=FUZZY_OUT, selftest=True)

CHARS_FUNCS = ["chars::to_lower_case", "chars::is_upper_case", "chars::normalize (tables LATIN_1AB, LATIN_EXTENDED_ADDITIONAL, SUPERSCRIPTS_AND_SUBSCRIPTS)",
               "<char as Char>::{normalize, char_class, char_class_and_normalize}", "<AsciiChar as Char>::*", "char_class_non_ascii", "CASE_FOLDING_SIMPLE"]
chars = KaniProp("nucleo-matcher", matcher_props.chars_instances, "C16", functions=CHARS_FUNCS,
                 assumptions=["Unicode oracle: Python's unicodedata (simple case folding derived from str.casefold()/lower(); NFKD); code points unassigned in that UCD version are outside the folding comparison",
                              "the list of documented normalization blocks is read from the doc comment of chars::normalize in the current tree",
                              "std's char::is_lowercase/is_numeric/is_alphabetic/is_whitespace are environment (executed symbolically as compiled)"],
                 outside=["code points unassigned in the reference UCD (folding comparison only)"])

EXACT_FUNCS = ["Matcher::{substring,prefix,postfix,exact}_{match,indices}", "Matcher::substring_match_impl", "Matcher::exact_match_impl",
               "Matcher::substring_match_1_ascii", "Matcher::substring_match_ascii", "Matcher::substring_match_ascii_with_prefilter",
               "Matcher::calculate_score", "Utf32Str::{leading,trailing}_white_space", "Config::bonus_for"]
def exact_uni_instances(tier):
    return matcher_props.exact_instances(tier) + [i for i in matcher_props.uni_instances(tier) if "C05" in i.props]


exact = KaniProp("nucleo-matcher", exact_uni_instances, "C10", functions=EXACT_FUNCS,
                 assumptions=MATCHER_ASSUME + ["U+000B excluded from the alphabets (std's byte and char whitespace predicates disagree on it; the statement does not say which is meant)"],
                 outside=["haystacks / needles beyond the per-tier bounds", "non-ASCII representations (see the *_uni instances)"], selftest=True)


def fuzzy_exact_instances(tier):
    return matcher_props.fuzzy_instances(tier) + matcher_props.exact_instances(tier) + matcher_props.uni_instances(tier) + matcher_props.dispatch_instances(tier)


both = KaniProp("nucleo-matcher", fuzzy_exact_instances, "C10", functions=FUZZY_FUNCS + EXACT_FUNCS,
                assumptions=exact.assumptions, outside=FUZZY_OUT, selftest=True)


class MirxProp:
    """C09: MIR extraction + RC11-style race queries (z3, cross-checked with cvc5), Miri confirmation."""

    def run(self, pid, tier, seed, args):
        import mirx, subprocess
        t0 = time.time()
        sc = engine.Scratch(pid, shims=(), keep=args.keep)
        try:
            return self._run(pid, tier, seed, args, sc, t0, mirx)
        finally:
            sc.close()

    def _run(self, pid, tier, seed, args, sc, t0, mirx):
        import subprocess
        inconclusive = []
        samples = []
        queries = 0
        solver_s = 0.0
        try:
            mir = mirx.dump_mir(sc.native_repo(), sc.dir + "/nucleo.mir")
            ex = mirx.extract(mir)
            scen = mirx.scenarios(ex)
        except (mirx.ShapeError, RuntimeError) as e:
            print("INCONCLUSIVE: extraction: %s" % e)
            engine.write_evidence(pid, tier, seed, {"evaluations": 1, "distinct_nontrivial": 2, "samples": [str(e)], "inconclusive": [str(e)]}, [], time.time() - t0, 0)
            return 2
        # non-vacuity of the encoding: with the reader's bucket load weakened to Relaxed the
        # flag-initialisation race MUST be found
        weak = dict(ex)
        weak["get"] = [dict(e, orderings=["Relaxed"]) if e.get("loc") == "bucket" else e for e in ex["get"]]
        wsc = [s_ for s_ in mirx.scenarios(weak) if s_["kind"] == "flag-init" and s_["reader"] == "get"][0]
        r, _, t = mirx.solve(wsc["smt"]); queries += 1; solver_s += t
        if r != "sat":
            inconclusive.append("self-check failed: the encoding does not find the race of a Relaxed bucket load (%s)" % r)
        races = []
        for s_ in scen:
            r1, o1, t1 = mirx.solve(s_["smt"])
            r2, o2, t2 = mirx.solve(s_["smt"], ("cvc5", "--lang", "smt2"))
            queries += 2; solver_s += t1 + t2
            verdict = r1
            if r1 != r2 or r1 not in ("sat", "unsat"):
                inconclusive.append("solvers disagree or error on '%s': z3=%s cvc5=%s" % (s_["name"], r1, r2))
                verdict = "inconclusive"
            samples.append({"scenario": s_["name"], "orderings_extracted_from_MIR": s_["orderings"], "race_query": verdict,
                            "z3_s": round(t1, 2), "cvc5_s": round(t2, 2)})
            if verdict == "sat":
                races.append(s_)
        violations = []
        for s_ in races:
            ok, tail = self._miri(sc, s_, tier)
            if ok:
                rdir = os.environ.get("VERIF_REPLAY_DIR", VERIF + "/replays")
                os.makedirs(rdir, exist_ok=True)
                path = rdir + "/%s.%s.json" % (pid, re.sub(r"[^A-Za-z0-9]+", "_", s_["name"])[:60])
                json.dump({"property": pid, "scenario": s_["name"], "orderings": s_["orderings"], "smt": s_["smt"],
                           "miri_reader": s_["reader"], "miri_output_tail": tail}, open(path, "w"), indent=1)
                violations.append((s_, path))
            else:
                inconclusive.append("race found by the model but not confirmed by Miri: %s" % s_["name"])
        for s_, path in violations:
            print("VIOLATION property=%s replay=%s" % (pid, path))
            print("  scenario=%s orderings=%s" % (s_["name"], s_["orderings"]))
        for i in inconclusive:
            print("INCONCLUSIVE: %s" % i)
        cov = {"evaluations": queries, "distinct_nontrivial": len(scen),
               "rule": "evaluations = SMT queries (every scenario is decided by z3 and by cvc5, plus one non-vacuity self-check); a scenario is one "
                       "writer/reader pairing of the publication protocol with symbolic reads-from; all count as non-trivial (each has at least two candidate executions)",
               "samples": samples,
               "functions_encoded": ["boxcar::Vec::{push, extend, get, get_unchecked, get_or_alloc, count}", "boxcar::Iter::next", "boxcar::Bucket::alloc"],
               "bounds": "2 threads, one writer operation and one reader operation per scenario, one bucket and one entry; release sequences / fences / more than one write per location are outside the model",
               "outside_bounds": ["per-thread matcher scratch and the mutex hand-over of the worker's result list (guarantees of rayon / parking_lot, which are environment)",
                                  "the canceled / should_notify flags (only ever accessed atomically)", "Drop / dealloc (ordered by &mut self)", "scenarios with three or more threads"],
               "solver_time_s": round(solver_s, 2), "solver": "z3 4.8.12 (decides), cvc5 1.0 (cross-check)", "inconclusive": inconclusive,
               "traces_validated_against_impl": len(violations)}
        engine.write_evidence(pid, tier, seed, cov,
                              ["memory orderings, atomic operations and non-atomic initialising writes are extracted from the nightly MIR dump of the current tree; the per-function event SHAPE is checked, not inferred",
                               "RC11 fragment: happens-before = (program order U release/acquire synchronises-with)+; coherence on reads-from; no fences, no release sequences",
                               "a race found by the model is reported only if Miri's data-race detector reports it on a generated two-thread test"],
                              time.time() - t0, len(violations))
        if violations:
            return 1
        return 2 if inconclusive else 0

    def _miri(self, sc, s_, tier):
        import subprocess
        reader = s_["reader"] or "get"
        repo = sc.native_repo()
        nucleo_props.write_gen(sc, "quick", small=False)
        env = sc.env(small=False)
        env["CARGO_TARGET_DIR"] = sc.dir + "/miri-target"
        sc.write_gen("miri_reader.rs", 'pub const MIRI_READER: &str = "%s";\n' % reader)
        tail = ""
        for sd in (1, 2, 3):
            env["MIRIFLAGS"] = "-Zmiri-seed=%d -Zmiri-preemption-rate=0.05" % sd
            p = subprocess.run(["cargo", "+nightly", "miri", "test", "--offline", "-p", "nucleo", "--lib", "verif::miri_h::race_probe"],
                               cwd=repo, env=env, capture_output=True, text=True, timeout=1800)
            out = p.stdout + p.stderr
            if "Data race detected" in out:
                i = out.find("Data race detected")
                return True, out[max(0, i - 200):i + 1200]
            tail = out[-800:]
        return False, tail

    def replay(self, path):
        rec = json.load(open(path))
        print(json.dumps({k: rec[k] for k in ("scenario", "orderings", "miri_reader")}, indent=1))
        print(rec.get("miri_output_tail", "")[:1500])
        return 0


class MirDropProp:
    """C11, unwinding clause: MIR of boxcar::Vec::push / extend -> transition system over basic blocks with drop
    flags -> bounded reachability in z3 ("an exit at which the item is not dropped exactly once / not owned by a
    published slot"); a satisfiable query is confirmed by a native run with a panicking callback."""
    TARGETS = (("push", "value", 70, "push"), ("extend", "v", 90, "extend:1"))

    def run(self, pid, tier, seed, args):
        import mirx, mirdrop, subprocess
        t0 = time.time()
        sc = engine.Scratch(pid, shims=(), keep=args.keep)
        try:
            return self._run(pid, tier, seed, args, sc, t0, mirx, mirdrop)
        finally:
            sc.close()

    def _run(self, pid, tier, seed, args, sc, t0, mirx, mirdrop):
        import subprocess
        inconclusive, samples, violations = [], [], []
        queries, solver_s = 0, 0.0
        try:
            mir = mirx.dump_mir(sc.native_repo(), sc.dir + "/nucleo.mir")
            fs = mirx.functions(mir)
        except RuntimeError as e:
            print("INCONCLUSIVE: MIR dump: %s" % e)
            engine.write_evidence(pid, tier, seed, {"evaluations": 1, "distinct_nontrivial": 1, "samples": [str(e)], "inconclusive": [str(e)]}, [], time.time() - t0, 0)
            return 2
        for fn, dbg, steps, probe in self.TARGETS:
            if tier == "thorough":
                steps = steps * 2 if fn == "push" else steps + 30   # (extend: 90 steps take z3 about 2 min, 120 about 8)
            try:
                key = [k for k in fs if k.endswith("::" + fn) and "boxcar" in k and "impl at" in k]
                if len(key) != 1:
                    raise mirdrop.ShapeError("boxcar::Vec::%s not found exactly once in the MIR dump" % fn)
                md = mirdrop.model(fs[key[0]], dbg)
                wtxt, names = mirdrop.smt(md, steps, goal="witness")
                vtxt, _ = mirdrop.smt(md, steps, goal="violation")
            except mirdrop.ShapeError as e:
                inconclusive.append("%s: %s" % (fn, e))
                continue
            rw, ow, tw = mirdrop.solve(wtxt); queries += 1; solver_s += tw
            if rw != "sat":
                inconclusive.append("%s: vacuity witness failed - the exit after a panic in the fill callback is not reachable in the model (%s)" % (fn, rw))
            rv, ov, tv = mirdrop.solve(vtxt); queries += 1; solver_s += tv
            samples.append({"function": "boxcar::Vec::" + fn, "item_local": md["item"], "drop_flags": md["flags"], "fill_call_block": md["fill"],
                            "blocks": len(md["blocks"]), "bound_block_steps": steps, "violation_query": rv, "z3_s": round(tv, 1),
                            "witness_query(unwind exit with the item dropped once)": rw, "witness_path": mirdrop.path_of(ow, names) if rw == "sat" else None})
            if rv == "sat":
                path = mirdrop.path_of(ov, names)
                log("[%s] %s: the model reaches an exit with the item unaccounted: %s" % (pid, fn, " ".join(path)))
                ok, tail = self._native(sc, probe)
                if ok:
                    rdir = os.environ.get("VERIF_REPLAY_DIR", VERIF + "/replays")
                    os.makedirs(rdir, exist_ok=True)
                    rp = rdir + "/%s.mirdrop_%s.json" % (pid, fn)
                    json.dump({"property": pid, "engine": "mirdrop", "function": fn, "block_path": path, "native_probe": probe, "native_output": tail}, open(rp, "w"), indent=1)
                    violations.append((fn, rp, tail))
                else:
                    inconclusive.append("%s: the model finds an unaccounted item on the unwind path but the native run with a panicking callback is clean (%s)" % (fn, tail))
            elif rv != "unsat":
                inconclusive.append("%s: solver answered %s" % (fn, rv))
        for fn, rp, tail in violations:
            print("VIOLATION property=%s replay=%s" % (pid, rp))
            print("  function=boxcar::Vec::%s native: %s" % (fn, tail))
        for i in inconclusive:
            print("INCONCLUSIVE: %s" % i)
        cov = {"evaluations": queries, "distinct_nontrivial": len(samples),
               "rule": "evaluations = SMT queries (per function one bounded-reachability query for the violation and one vacuity witness); distinct = functions modelled",
               "samples": samples, "functions_encoded": ["boxcar::Vec::push (MIR, drop-elaborated)", "boxcar::Vec::extend (MIR, drop-elaborated)"],
               "bounds": "paths of at most the stated number of basic-block steps from the function entry; one item (the one the callback is called for)",
               "outside_bounds": ["unwinding out of library calls that can only fail by allocation failure / capacity overflow", "the previous loop item at the moment the loop variable is overwritten (extend)",
                                  "what the callback does to the columns it was given (they are initialised before the call and dropped with the bucket: C11 history harnesses)"],
               "solver_time_s": round(solver_s, 1), "solver": "z3 4.8.12", "inconclusive": inconclusive, "traces_validated_against_impl": len(violations)}
        engine.write_evidence(pid, tier, seed, cov,
                              ["drop flags, cleanup blocks and moves are read from the nightly MIR dump of the current tree (after drop elaboration)",
                               "branches on data are nondeterministic, branches on drop flags follow the flag; only calls of user code (fill callback, iterator) take their unwind edge",
                               "a path found by the solver is reported only if a native run with a panicking callback and drop-counting items shows a leak or a double drop"],
                              time.time() - t0, len(violations))
        if violations:
            return 1
        return 2 if inconclusive else 0

    def _native(self, sc, probe):
        import subprocess
        nucleo_props.write_gen(sc, "quick", small=True)
        env = sc.env(True)
        env["CARGO_TARGET_DIR"] = sc.dir + "/native-target"
        env["NUCLEO_VERIF_PANIC"] = probe
        p = subprocess.run(["cargo", "test", "-p", "nucleo", "--lib", "--offline", "verif::boxcar_h::panic_probe", "--", "--exact", "--nocapture"],
                           cwd=sc.native_repo(), env=env, capture_output=True, text=True, timeout=1200)
        m = re.search(r"PANIC-PROBE (.*)", p.stdout + p.stderr)
        if not m:
            return False, "native probe did not run: " + (p.stdout + p.stderr)[-300:]
        return m.group(1).startswith("bad"), m.group(1)[:300]

    def replay(self, path):
        rec = json.load(open(path))
        sc = engine.Scratch("replay", shims=())
        try:
            ok, tail = self._native(sc, rec["native_probe"])
            print("native probe: %s" % tail)
            return 1 if ok else 0
        finally:
            sc.close()


class Multi:
    """A property decided by several engines/harness families: runs each, merges verdict and evidence."""
    def __init__(self, parts):
        self.parts = parts

    def run(self, pid, tier, seed, args):
        import json
        rcs = []
        merged = None
        t0 = time.time()
        for part in self.parts:
            rc = part.run(pid, tier, seed, args)
            rcs.append(rc)
            evdir = os.environ.get("VERIF_EVIDENCE_DIR", VERIF + "/evidence")
            ev = json.load(open(evdir + "/%s.json" % pid))
            if merged is None:
                merged = ev
            else:
                c, d = merged["coverage"], ev["coverage"]
                for k in ("evaluations", "distinct_nontrivial", "harness_instances", "solver_time_s", "traces_validated_against_impl"):
                    c[k] = c.get(k, 0) + d.get(k, 0)
                for k in ("samples", "functions_encoded", "bounds", "outside_bounds", "inconclusive", "covers_never_satisfied", "known_findings_reproduced"):
                    c[k] = list(c.get(k, [])) + [x for x in d.get(k, []) if x not in c.get(k, [])]
                merged["assumptions"] = list(merged["assumptions"]) + [a for a in ev["assumptions"] if a not in merged["assumptions"]]
                merged["violations"] += ev["violations"]
        merged["wall_s"] = round(time.time() - t0, 1)
        json.dump(merged, open(evdir + "/%s.json" % pid, "w"), indent=1)
        if 1 in rcs:
            return 1
        if 2 in rcs:
            return 2
        return 0

    def replay(self, path):
        rec = json.load(open(path))
        for part in self.parts:
            if rec.get("engine") == "mirdrop" and isinstance(part, MirDropProp):
                return part.replay(path)
        return self.parts[0].replay(path)


pattern = KaniProp("nucleo-matcher", matcher_props.pattern_instances, "C14",
                   functions=["Atom::parse", "Atom::new", "Atom::new_inner", "pattern_atoms", "Pattern::parse", "Pattern::new", "Pattern::reparse", "Atom::score (flag hand-over)"],
                   assumptions=["reference parser written from the grammar of the statement and the AtomKind documentation",
                                "the private flags ignore_case / normalize are observed through their documented effect on Matcher::config"],
                   outside=["pattern strings longer than the per-tier bound"])

NUCLEO_SHIMS = ("memchr", "rayon", "parking_lot")
NUCLEO_ASSUME = [
    "rayon is replaced by /verif/shims/rayon: one thread, join / parallel-iterator chunks run in a solver-chosen order (contract: every closure runs exactly once on disjoint data; indexed results keep index order)",
    "parking_lot is replaced by /verif/shims/parking_lot (mutual exclusion only; contention resolved by harness hooks)",
    "memchr is replaced by /verif/shims/memchr",
    "Kani models panic=abort, no unwinding; no threads: interleavings of atomics are outside these harnesses",
]
sort = KaniProp("nucleo", nucleo_props.sort_instances, "C18", shims=NUCLEO_SHIMS, gen_mod=nucleo_props,
                functions=["par_sort::par_quicksort", "par_sort::recurse", "par_sort::{insertion_sort, shift_head, shift_tail, partial_insertion_sort, heapsort, partition, partition_in_blocks, partition_equal, choose_pivot, break_patterns}"],
                assumptions=NUCLEO_ASSUME + ["tuning constants shrunk under --cfg nucleo_verif_small for the composite harnesses marked 'shrunk' (MAX_INSERTION 3, MAX_SEQUENTIAL 2, BLOCK 4, SHORTEST_SHIFTING 6, SHORTEST_MEDIAN_OF_MEDIANS 6); units and short composites use the real constants"],
                outside=["slices longer than the per-tier bound (the property speaks of hundreds of thousands)", "the real BLOCK = 128 main loop (needs > 256 elements)",
                         "'same order for every thread count' is only covered as: the result is sorted under the comparator for every join order"])
boxcar = KaniProp("nucleo", nucleo_props.boxcar_instances, "C08", shims=NUCLEO_SHIMS, gen_mod=nucleo_props,
                  functions=["boxcar::Location::of", "boxcar::Location::bucket_len", "boxcar::Vec::{with_capacity, push, extend, get, count, get_or_alloc, drop}", "boxcar::Bucket::{alloc, dealloc, get}", "boxcar::Entry::{layout, read, matcher_cols_raw, matcher_cols_mut}"],
                  assumptions=NUCLEO_ASSUME + ["bucket geometry shrunk under --cfg nucleo_verif_small (SKIP 2, eager capacity clamp 2) for the history harnesses; Location::of is checked for every u32 with the real SKIP = 32 as well"],
                  outside=["interleavings of concurrent push/extend/get (Kani has no threads; CBMC's thread encoding rejects Rust-generated pointer code) - sequential histories only",
                           "fill callbacks that panic (panic=abort under Kani)", "histories longer than the per-tier bound"])

proto = KaniProp("nucleo", lambda tier: nucleo_props.proto_instances(tier) + nucleo_props.scored_instances(tier), "C06", shims=NUCLEO_SHIMS, gen_mod=nucleo_props, replay_with_shims=True,
                 functions=["Nucleo::{new, injector, restart, tick, tick_inner, active_injectors, snapshot}", "Injector::{clone, drop, push}", "Snapshot::{update, clear}",
                            "Worker::{new, run, process_new_items, process_new_items_trivial, reset_matches, remove_in_flight_matches, item_count}", "State::*", "MultiPattern::{status, reset_status}",
                            "boxcar::Vec::*", "par_sort::par_quicksort"],
                 assumptions=NUCLEO_ASSUME + ["sequentialised schedules: the harness is the UI thread; the background run executes as one uninterrupted call at a solver-chosen point (inside a blocking lock, inside a timed lock, or between two UI operations)",
                                              "small geometry (bucket SKIP 2, eager capacity clamp 2, scratch slab 304 bytes)"],
                 outside=["preemption of a run by the UI thread other than at the modelled points", "more than one pool task pending", "weak-memory effects on the flags (the model is sequentially consistent)", "histories longer than the per-tier bound"])

compose = KaniProp("nucleo-matcher", matcher_props.compose_instances, "C15",
                   functions=["Pattern::score", "Pattern::indices", "Pattern::match_list", "Atom::score", "Atom::indices"],
                   assumptions=["the ten Matcher entry points are replaced by consistent nondeterministic stubs (a function of atom and haystack); the real entry points are the subject of C01-C05/C10",
                                "native replay realises the drawn outcome pattern with the real matcher (haystack j contains atom a's letter iff the table said it matches) and checks the same assertions against the real per-atom results"],
                   outside=["more than 3 atoms / 3 inputs", "MultiPattern::score across columns is checked by the nucleo-crate harness multi_compose"])

utf32 = KaniProp("nucleo-matcher", matcher_props.utf32_instances, "C17",
                 functions=["Utf32Str::{new, len, is_empty, slice, slice_u32, get, chars, is_ascii}", "Utf32String::{from(&str), from(String), from(Box<str>), from(Cow), slice}", "has_ascii_graphemes", "chars::graphemes (CR LF special case)", "Chars::{next, next_back}"],
                 assumptions=["grapheme cluster boundaries are taken from unicode-segmentation (environment); under Kani only ASCII text (where every cluster is one byte except CR LF) goes through it",
                              "memchr::memmem::find is the shim's"],
                 outside=["multi-code-point clusters (combining marks, emoji sequences, Hangul jamo, regional indicators): GraphemeCursor on symbolic non-ASCII text is beyond CBMC's reach here; not claimed",
                          "Display / Debug formatting (std formatting machinery)", "strings longer than the per-tier bound"])

multi = KaniProp("nucleo", nucleo_props.multi_instances, "C15", shims=NUCLEO_SHIMS, gen_mod=nucleo_props,
                 functions=["MultiPattern::{new, reparse, score, is_empty}"],
                 assumptions=["nucleo_matcher::pattern::Pattern::score is replaced by a stub keyed by (column pattern, haystack column); the real one is the subject of the compose_* harnesses",
                              "no native replay for these harnesses (the stub exists only under Kani): a failed assertion is reported as inconclusive"],
                 outside=["more than 3 columns"])

PROPS = {
    "C09": MirxProp(),
    "C06": proto,
    "C07": proto,
    "C12": proto,
    "C13": proto,
    "C19": proto,
    "C17": utf32,
    "C15": Multi([compose, multi]),
    "C20": proto,
    "C18": sort,
    "C08": boxcar,
    "C11": Multi([boxcar, MirDropProp()]),
    "C05": exact,
    "C16": chars,
    "C01": both,
    "C02": both,
    "C03": both,
    "C04": both,
    "C10": both,
}
