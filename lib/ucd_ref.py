"""Reference tables for C16, generated at check time from Python's unicodedata (the Unicode oracle)
and - for the list of *documented* normalization blocks - from the doc comment in /repo."""
import re, unicodedata

# Unicode block names -> ranges (Blocks.txt; only the names a doc comment may mention)
BLOCKS = {
    "latin-1 supplement": (0x80, 0xFF),
    "latin extended-a": (0x100, 0x17F),
    "latin extended-b": (0x180, 0x24F),
    "ipa extensions": (0x250, 0x2AF),
    "latin extended additional": (0x1E00, 0x1EFF),
    "superscripts and subscripts": (0x2070, 0x209F),
    "spacing modifier letters": (0x2B0, 0x2FF),
    "latin extended-c": (0x2C60, 0x2C7F),
    "latin extended-d": (0xA720, 0xA7FF),
    "latin extended-e": (0xAB30, 0xAB6F),
    "phonetic extensions": (0x1D00, 0x1D7F),
    "general punctuation": (0x2000, 0x206F),
    "currency symbols": (0x20A0, 0x20CF),
    "letterlike symbols": (0x2100, 0x214F),
}


def documented_blocks(normalize_rs_text):
    """The blocks listed (as a bullet list of links) in the doc comment of `pub fn normalize`."""
    head = normalize_rs_text.split("pub fn normalize", 1)[0]
    names = re.findall(r"^/// - \[([^\]]+)\]", head, re.M)
    out = []
    for n in names:
        key = n.strip().lower()
        if key not in BLOCKS:
            raise SystemExit("documented block %r not known to the checker" % n)
        out.append((n, BLOCKS[key]))
    return out


def simple_fold(cp):
    c = chr(cp)
    f = c.casefold()
    if len(f) == 1:
        return ord(f)
    l = c.lower()           # status S: simple mapping of characters whose full folding is longer
    if len(l) == 1 and l != c:
        return ord(l)
    return cp


def fold_table():
    """[(cp, fold)] for every assigned scalar with a non-identity simple case folding."""
    out = []
    for cp in range(0x110000):
        if 0xD800 <= cp <= 0xDFFF:
            continue
        if unicodedata.category(chr(cp)) == "Cn":
            continue
        f = simple_fold(cp)
        if f != cp:
            out.append((cp, f))
    return out


def assigned_ranges():
    out = []
    start = None
    for cp in range(0x110000 + 1):
        ok = cp < 0x110000 and not (0xD800 <= cp <= 0xDFFF) and unicodedata.category(chr(cp)) != "Cn"
        if ok and start is None:
            start = cp
        if not ok and start is not None:
            out.append((start, cp - 1)); start = None
    return out


ALNUM = set("ABCDEFGHIJKLMNOPQRSTUVWXYZabcdefghijklmnopqrstuvwxyz0123456789")


def norm_table(blocks):
    """[(cp, ascii)] for every scalar of the documented blocks whose NFKD is one ASCII letter/digit
    followed only by combining marks."""
    out = []
    for _, (a, b) in blocks:
        for cp in range(a, b + 1):
            d = unicodedata.normalize("NFKD", chr(cp))
            if d and d[0] in ALNUM and d != chr(cp) and all(unicodedata.category(x).startswith("M") for x in d[1:]):
                out.append((cp, ord(d[0])))
    return sorted(set(out))


def rust_tables(normalize_rs_text):
    blocks = documented_blocks(normalize_rs_text)
    ft = fold_table(); ar = assigned_ranges(); nt = norm_table(blocks)
    def arr(name, rows):
        return "pub static %s: [(u32, u32); %d] = [%s];\n" % (name, len(rows), ", ".join("(%d, %d)" % r for r in rows))
    txt = "// generated at check time from Python unicodedata %s and the doc comment of chars::normalize\n" % unicodedata.unidata_version
    txt += arr("FOLD_REF", ft) + arr("ASSIGNED", ar) + arr("NORM_REF", nt) + arr("DOC_BLOCKS", [b for _, b in blocks])
    meta = {"ucd_version": unicodedata.unidata_version, "fold_entries": len(ft), "assigned_ranges": len(ar),
            "norm_entries": len(nt), "documented_blocks": [n for n, _ in blocks]}
    return txt, meta


def latin1_model(normalize_rs_text):
    """first 96 entries (U+00A0..U+00FF) of the crate's LATIN_1AB table, read from the current source"""
    m = re.search(r"static LATIN_1AB: \[char; (\d+)\] = \[(.*?)\n\];", normalize_rs_text, re.S)
    ents = re.findall(r"^\s*'(.*?)',", m.group(2), re.M)
    def dec(s):
        if s.startswith("\\u{"):
            return int(s[3:-1], 16)
        if s.startswith("\\"):
            return ord(s[1])
        return ord(s)
    vals = [dec(e) for e in ents[:96]]
    assert len(vals) == 96
    return "// generated from matcher/src/chars/normalize.rs (LATIN_1AB[0..96]) of the current tree\npub static NORMALIZE_LATIN1: [u32; 96] = [%s];\n" % ", ".join(str(v) for v in vals)
