import os
"""Instance generators for the K-nucleo engine (harnesses compiled into the `nucleo` crate)."""
from matcher_props import Inst, gen_text, _with_rules


def sort_instances(tier):
    out = []
    q = tier == "quick"
    def add(name, unwind, expr, bounds, small):
        i = Inst(name, unwind, expr, ["C18"], bounds, "nucleo_sort")
        i.small = small
        out.append(i)
    # composite under the REAL tuning constants: lengths up to 20 are the insertion-sort regime
    for l in ([3, 6, 8] if q else [2, 3, 5, 7, 9, 10, 12]):
        add("qs_real_uncancelled_l%d" % l, l + 3, "quicksort_uncancelled::<%d>()" % l, {"len": l, "constants": "real", "cancel": "never"}, False)
    for l in ([5] if q else [4, 7, 9]):
        add("qs_real_cancelled_l%d" % l, l + 3, "quicksort_cancelled::<%d>()" % l, {"len": l, "constants": "real", "cancel": "symbolic moment"}, False)
    # composite under SHRUNK constants (MAX_INSERTION 3, MAX_SEQUENTIAL 2, BLOCK 4, ...): partitioning,
    # block tails, partition_equal, pattern breaking, heapsort fallback. Calibration: length 5 does not
    # finish in 15 min (the split point is symbolic, so every recursive call works on a slice of
    # symbolic length); length 4 is the largest composite that fits, the pieces are covered as units
    # (the composite under shrunk constants and the `partition` unit were calibrated and dropped: the
    # split point is symbolic, so every recursive call works on a slice of symbolic length - length 4
    # runs > 10 min / exhausts the memory cap; see DESIGN.md §5.18)
    # units under the real constants (partition with the real BLOCK = 128 exhausts memory even at length 5:
    # it is covered under the shrunk BLOCK = 4)
    # concrete arrangement + concrete cancel moment under the shrunk constants (join reached from length 4 on);
    # the driver enumerates the moment, the solver the order of the halves of every join
    for l, perms, ks in ([(6, [0], [3, 6, 9])] if q else [(6, [0], range(1, 16))]):   # (length 8 - the first length at which a half can itself notice the flag - runs > 4 min per instance: not registered)
        for pm in perms:
            for k in ks:
                add("qs_small_cancelled_concrete_l%d_p%d_k%d" % (l, pm, k), l + 4, "quicksort_cancelled_concrete::<%d>(%d, %d)" % (l, pm, k),
                    {"len": l, "constants": "shrunk (MAX_INSERTION 3, MAX_SEQUENTIAL 2, BLOCK 4)", "arrangement": "concrete #%d" % pm, "cancel": "at comparison %d" % k, "join_order": "solver-chosen"}, True)
    units = [("heapsort_unit", [5, 6] if q else [2, 3, 4, 5, 6, 8]), ("insertion_unit", [4] if q else [2, 4, 6]),
             ("partial_insertion_unit", [5] if q else [3, 5, 7]),
             ("partition_equal_unit", [4] if q else [2, 4, 6, 8]), ("choose_pivot_unit", [8] if q else [3, 8, 9]),
             ("break_patterns_unit", [8] if q else [8, 9, 12])]
    for fn, ls in units:
        for l in ls:
            add("%s_real_l%d" % (fn, l), max(l + 3, 6), "%s::<%d>()" % (fn, l), {"len": l, "constants": "real", "unit": fn}, False)
    return out


def boxcar_instances(tier):
    out = []
    q = tier == "quick"
    def add(name, unwind, expr, props, bounds, small, rules=None):
        i = Inst(name, unwind, expr, props, bounds, "nucleo_boxcar")
        i.small = small
        if rules:
            i.unwind_rules = rules
        out.append(i)
    add("location_all_real", 4, "location_all()", ["C08"], {"index": "every u32 up to MAX_ENTRIES", "SKIP": 32}, False)
    add("location_all_small", 4, "location_all()", ["C08"], {"index": "every u32 up to MAX_ENTRIES", "SKIP": 2}, True)
    # histories (small geometry: buckets of 2, 4, 8, ... entries; eager capacity clamp 2)
    hs = [(0, 1, 0, 0, 1), (0, 2, 3, 3, 1), (2, 0, 5, 5, 0), (0, 0, 8, 0, 1), (1, 1, 3, 1, 2)] if q else \
         [(c, pre, rep, yld, post) for c in (0, 2) for pre in (0, 1, 3) for (rep, yld) in ((0, 0), (2, 2), (3, 1), (5, 5), (8, 0), (7, 2), (12, 3)) for post in (0, 1, 2)
          if pre + yld + post <= 12 and pre + rep + post <= 13]
    for c, pre, rep, yld, post in hs:
        add("history_c%d_p%d_r%d_y%d_q%d" % (c, pre, rep, yld, post), 34,
            "history::<%d, %d, %d, %d, %d>()" % (c, pre, rep, yld, post), ["C08", "C11"],
            {"capacity": c, "pushes_before": pre, "extend_reported": rep, "extend_yielded": yld, "pushes_after": post,
             "geometry": "small (SKIP 2)", "payloads": "symbolic", "lookup_index": "symbolic"}, True)
    # iterators that yield MORE than they reported: the instance must end in the documented assertion of
    # extend (expect_fail); when it does not, the native run decides what went wrong (C08: surplus item visible,
    # C11: surplus item overwritten without being dropped)
    ov = [(0, 1, 3, 4, 1), (0, 0, 2, 3, 1)] if q else \
         [(c, pre, rep, rep + d, post) for c in (0, 2) for pre in (0, 1) for rep in (1, 2, 3, 5, 6) for d in (1, 2) for post in (0, 1, 2)]
    for c, pre, rep, yld, post in ov:
        add("history_over_c%d_p%d_r%d_y%d_q%d" % (c, pre, rep, yld, post), 34,
            "history::<%d, %d, %d, %d, %d>()" % (c, pre, rep, yld, post), ["C08", "C11"],
            {"capacity": c, "pushes_before": pre, "extend_reported": rep, "extend_yielded": yld, "pushes_after": post,
             "geometry": "small (SKIP 2)", "expected": "ends in extend's assertion `i < count`"}, True)
        out[-1].expect_fail = r"assertion failed: i < count"
    return out


def proto_instances(tier):
    """Schedule / history skeletons are enumerated here (one CBMC run each); see proto_h.rs for why
    the choices cannot be solver variables."""
    import os, itertools
    out = []
    q = tier == "quick"
    def add(name, unwind, expr, props, bounds, rules=None):
        i = Inst(name, unwind, expr, props, bounds, "nucleo_proto")
        i.small = True
        i.unwind_rules = rules or PROTO_RULES
        i.cbmc_extra = PROTO_CBMC
        out.append(i)
    if os.environ.get("VERIF_PROBES"):
        for nm in ("probe_d9_h", "probe_d10_h", "probe_d8_h", "probe_d7_h", "probe_d5_h", "probe_d6_h", "probe_d3_h", "probe_d4_h", "probe_d1_h", "probe_d2_h", "probe_heapvec_h", "probe_h_h", "probe_i_h", "probe_e_h", "probe_f_h", "probe_g_h", "probe_a_h", "probe_b_h", "probe_c_h", "probe_d_h", "probe_clone_from_h", "probe_new_h", "probe_tick_h", "probe_tick_run_h"):
            i = Inst(nm, 8, None, ["C06"], {}, None); i.small = True; i.unwind_rules = PROTO_RULES; i.cbmc_extra = PROTO_CBMC; out.append(i)
    TM = ["acquired in time", "timed out, run still pending", "timed out and the run finishes before the tick re-arms"]
    # C20: (operation, slot) skeletons: 0 injector, 1 clone, 2 drop, 3 restart(slot odd => clear), 4 tick(0), 5 pending run completes
    names = "icdrtp"
    if q:
        seqs = [[(0, 0), (1, 0), (3, 1), (0, 2), (2, 0)], [(0, 0), (4, 0), (3, 0), (4, 0), (0, 1)], [(0, 1), (3, 1), (1, 1), (4, 0), (5, 0)],
                [(3, 1), (0, 0), (3, 0), (0, 1), (1, 1)], [(0, 0), (3, 1), (0, 1), (4, 0), (2, 1)]]
    else:
        kinds = [s for s in itertools.product(range(6), repeat=4) if 3 in s and 0 in s]
        seqs = []
        for n_, ks in enumerate(kinds):
            seqs.append([(o, (n_ + i_ * 2) % 3) for i_, o in enumerate(ks)])
        seqs += [[(0, 0), (1, 0), (3, 1), (0, 2), (2, 0), (4, 0)], [(3, 1), (0, 0), (3, 0), (0, 1), (1, 1), (4, 0)], [(0, 0), (4, 0), (5, 0), (3, 1), (0, 1), (4, 0)]]
    for sq in seqs:
        code = 0
        for o, k in reversed(sq):
            code = (code * 3 + k) * 6 + o
        for tmd in [0]:
            add("injector_count_%s_t%d" % ("".join("%s%d" % (names[o], k) for o, k in sq), tmd), 8,
                "injector_count::<%d>(%d, %d)" % (len(sq), code, tmd * 13), ["C20"],
                {"history": [["injector()", "clone", "drop", "restart", "tick(0)", "pending run completes"][o] + "[slot %d]" % k for o, k in sq],
                 "timed_lock_outcomes": TM[tmd] + " (every attempt)", "handle_slots": 3})
    # C13 / C19 / C06: ticks around one background run
    for it in ([1] if q else [0, 1, 2]):
        for sp in (False, True):
            for tmd in (0, 1, 2):
                # schedules with a timed-out attempt: CBMC reports invalid pointers in later ticks that do not
                # exist natively (see DESIGN.md, K-nucleo limits); only the C13 assertions - confirmed by
                # native replay when they fail - are taken from those instances
                add("wakeup_i%d_%s_t%d" % (it, "push2" if sp else "nopush", tmd), 8, "wakeup::<%d>(%d, %s)" % (it, tmd, str(sp).lower()), ["C13", "C06", "C19", "C07"] if tmd == 0 else ["C13"],
                    {"items": it, "ticks": 3, "first_timed_lock_outcome": TM[tmd], "second_push": sp, "worker_threads": 1})
    # C13: a run started by a pattern edit (no new items)
    for it in ([1] if q else [0, 1, 2]):
        for tmd in (0, 1, 2):
            add("wakeup_rescore_i%d_t%d" % (it, tmd), 8, "wakeup_rescore::<%d>(%d)" % (it, tmd * 3), ["C13", "C07"] if tmd == 0 else ["C13"],
                {"items": it, "ticks": 4, "pattern_edit": "reparse to the empty text (rescore requested)", "timed_lock_outcome_after_edit": TM[tmd], "worker_threads": 1})
    # C06 with a writer in flight
    for pre, batch in ([(1, 2)] if q else [(0, 2), (1, 2), (2, 2), (1, 3)]):
        for runs in ([0, 1, 2, 3] if batch == 2 else [0, 2, 5, 7]):
            for tmd in [0]:
                add("inflight_p%d_b%d_r%d_t%d" % (pre, batch, runs, tmd), 8, "inflight_writer::<%d, %d>(%d, %d)" % (pre, batch, tmd, runs), ["C06", "C19", "C07"],
                    {"items_before": pre, "batch_in_flight": batch, "run_completes_before_publication_of_item(bitmask)": runs,
                     "timed_lock_outcomes(base3)": tmd, "pattern": "empty"})
    # C06 with a non-empty pattern: the parallel scan records in-flight slots in chunk order
    # (calibrated and dropped: with a non-empty pattern - real parser, real matcher scratch in the heap -
    # CBMC exhausts the memory cap during symbolic execution; the scenario source is kept in proto_h.rs)
    for split, rf in []:
        for sp in ([0] if q else [0, 1]):
            add("inflight_order_s%d_%s_p%d" % (split, "rf" if rf else "lf", sp), 8, "inflight_order(%d, %s, %d)" % (split, str(rf).lower(), sp), ["C06", "C19"],
                {"in_flight_slots": 2, "published_items": 1, "pattern": "non-empty ('a'), then edited", "parallel_scan_chunks": "split at %d, %s chunk first" % (split, "right" if rf else "left")})
    # C12: restart
    for o, nw in ([(1, 1)] if q else [(0, 1), (1, 0), (1, 1), (2, 1), (1, 2)]):
        for rb in (False, True):
            for cl in (False, True):
                for tmd in [0]:
                    add("restart_o%d_n%d_%s_%s_t%d" % (o, nw, "ran" if rb else "pend", "clear" if cl else "keep", tmd), 8,
                        "restart_isolation::<%d, %d>(%d, %s, %s)" % (o, nw, tmd, str(rb).lower(), str(cl).lower()), ["C12", "C06", "C19", "C07"],
                        {"items_before_restart": o, "items_after_restart": nw, "clear_snapshot": cl, "old_run_completed_before_restart": rb,
                         "timed_lock_outcomes(base3)": tmd, "ticks_after_restart": 2})
    return out


def multi_instances(tier):
    out = []
    for m in ([2, 6] if tier == "quick" else [0, 2, 5, 6, 7]):
        i = Inst("multi_compose_m%d" % m, 8, None, ["C15"], {"columns": 3, "non_empty_column_patterns(bitmask)": m, "per-(pattern,column) outcomes and scores": "symbolic (stub table)"}, None)
        i.small = True
        i.cbmc_extra = PROTO_CBMC
        out.append(i)
    return out


# loops that really iterate more than the global bound (resolved per binary with cbmc --show-loops)
# CBMC loses the concrete (zero / one) length of the pattern's atom vector once the Worker has been
# moved behind Arc<Mutex<..>>, and would unroll every clone / drop loop over atoms to the global
# bound, each iteration cloning a heap string of symbolic length. These loops get a tight
# per-loop bound instead; the unwinding ASSERTIONS stay on, so a path that really needs more
# iterations makes the run inconclusive instead of being cut off silently.
PROTO_RULES = [(r"array.*map|drain_array_with|try_from_fn|from_fn", 33), (r"boxcar.*Vec.*drop|boxcar::Vec.*as.*Drop", 33)]
# Heap objects are byte arrays to CBMC; above 64 bytes (the default of this option) it stops
# tracking their elements individually, so every Vec length read from the Worker - which lives in
# an Arc<Mutex<..>> - became a non-constant byte-extract and every clone / drop loop was unrolled
# to the bound with heap strings of symbolic length (tick: > 15 min). With 512 the same tick
# takes seconds. Soundness is not affected (it only changes how symex represents arrays).
# scored family: one matcher column (the comparator's sum over columns), at most 3 entries in the match list
# (small geometry: insertion sort up to 3 entries); unwinding assertions stay on
SCORED_RULES = PROTO_RULES + [(r"Iter<'_, nucleo_matcher::Utf32String>.*fold", 2), (r"par_sort::(insertion_sort|shift_tail|shift_head|partial_insertion_sort)", 4)]
PROTO_CBMC = ["--max-field-sensitivity-array-size", "512"]

def scored_instances(tier):
    """Non-empty patterns on the real worker; MultiPattern::score replaced by the table of its real values.
    script digits (first op first): 1..4 reparse to "a" / "ab" / "b" / "!a", 5 append to "ab", 6 push, 7 settle+oracle"""
    out = []
    q = tier == "quick"
    OPS = {1: 'reparse "a"', 2: 'reparse "ab"', 3: 'reparse "b"', 4: 'reparse "!a" (negative atom: matches score 0)', 5: 'append -> "ab"', 6: "push", 7: "settle + oracle",
           8: "tick, run left pending", 9: "reparse to the empty pattern", 10: "restart(false)", 11: "restart(true)"}
    def add(items, reserved, lens, ops, dbg=8):
        code = 0
        for o in reversed(ops):
            code = code * 16 + o
        name = "scored_i%d_r%d_l%d_%s%s" % (items, reserved, lens, "".join("%x" % o for o in ops), "_entries" if dbg == 16 else ("_c19" if dbg & 1 else ("_rf" if dbg & 32 else "")))
        # a timed-out lock attempt (op 8): CBMC reports invalid pointers in the later ticks of such schedules that neither the
        # native run nor Miri (same schedule, same shims) shows - those instances do not speak for C06, the owner of memory safety;
        # instances with a restart speak for C12 instead of C06 / C07 (one property per shared assertion, see scored_h.rs)
        props = (["C19"] if dbg & 1 else ["C07"]) if 8 in ops else (["C12", "C19"] if (10 in ops or 11 in ops) else ["C06", "C07", "C19"])
        i = Inst(name, 8, "scored::<%d, %d>(%d, %d, %d)" % (items, reserved, lens, code, dbg), props,
                 {"items_before": items, "reserved_unpublished_indices": reserved, "two_char_texts(bitmask)": lens, "script": [OPS[o] for o in ops],
                  "item_texts": "symbolic over {a,b}", "worker_threads": 1, "score": "table of the real MultiPattern::score", "oracle": "item count, match count = number of matching published items, status flags (entries of the match list are not read back: see scored_h.rs)"}, "nucleo_scored")
        i.small = True
        i.unwind_rules = SCORED_RULES
        i.cbmc_extra = PROTO_CBMC
        out.append(i)
        if 8 in ops and dbg == 8:
            add(items, reserved, lens, ops, 9)   # the same schedule with the shared count assertion under C19's label
    # calibration: one pattern edit + settle takes 25 - 40 s; every further settle multiplies the formula (two
    # settles with a reserved slot or three settles: > 12 min, 6 GB) - those stay out of both tiers
    # (entries mode - dbg 16: every item matches, entries read back - was measured as well: > 8 min per instance; not registered)
    if not q:
        # two in-flight items recorded right chunk first, then a rescore (defect 72ee16d); heavy: 20+ min
        add(1, 2, 0, [1, 7, 3, 7], 40)
    if q:
        add(2, 0, 0b01, [1, 7])
        add(3, 0, 0b001, [4, 7])
        add(2, 0, 0b10, [3, 7])
        add(2, 0, 0b01, [1, 8, 9, 7])        # a run cancelled by an edit to the empty pattern
        add(1, 0, 0b1, [1, 7, 10, 6, 7])     # restart with an unchanged non-empty pattern
        add(0, 0, 0, [10, 10, 7])            # two restarts, the injector taken in between keeps pushing
        add(1, 0, 0b1, [1, 7, 10, 7])        # restart with an unchanged non-empty pattern and an empty new stream
    else:
        for items, reserved, lens in ((1, 0, 0), (2, 0, 1), (2, 0, 2), (3, 0, 1), (3, 0, 6), (1, 1, 2), (2, 1, 2)):
            for ops in ([1, 7], [4, 7], [2, 7], [3, 7], [1, 3, 7], [1, 5, 7], [6, 1, 7], [1, 8, 9, 7], [1, 8, 3, 7], [1, 7, 10, 6, 7], [1, 7, 11, 6, 7], [4, 7, 1, 5, 7], [10, 10, 7], [11, 6, 10, 7], [1, 7, 10, 7], [1, 7, 11, 7]):
                add(items, reserved, lens, ops)
    return out


FAMILIES = {"nucleo_scored": scored_instances, "nucleo_sort": sort_instances, "nucleo_boxcar": boxcar_instances, "nucleo_proto": proto_instances, "nucleo_multi": multi_instances}


def all_instances(tier):
    out = []
    for f in FAMILIES.values():
        out += f(tier)
    return out


def write_gen(sc, tier, extra=(), small=None):
    # RUSTFLAGS reach the nucleo-matcher dependency too: its harness module needs its generated files
    import matcher_props
    matcher_props.write_gen(sc, "quick", small=True if small is None else small)
    fams = {}
    for i in list(all_instances(tier)) + list(extra):
        if i.family and (small is None or getattr(i, "small", True) == small):
            fams.setdefault(i.family, [])
            if not any(j.name == i.name for j in fams[i.family]):
                fams[i.family].append(i)
    for fam in FAMILIES:
        if fam == "nucleo_multi":
            continue  # static harness list
        if fam == "nucleo_scored":
            sc.write_gen(fam + ".rs", gen_text(fams.get(fam, []), "harnesses_scored"))
            continue
        # the protocol family runs the real worker, whose vectors legitimately grow: no Vec::push stub
        sc.write_gen(fam + ".rs", gen_text(fams.get(fam, []), "harnesses_nostub" if fam == "nucleo_proto" else "harnesses"))
    if not os.path.exists(os.path.join(sc.gen, "miri_reader.rs")):
        sc.write_gen("miri_reader.rs", 'pub const MIRI_READER: &str = "get";\n')
    # score table of scored_h.rs: the real function's values, computed natively when a scored instance is run
    import engine
    tab = None
    if getattr(sc, "need_score_table", False):
        tab = getattr(sc, "score_table_cache", None) or engine.score_table(sc)
        if tab is None:
            raise engine.BuildError("the native score table run failed")
        sc.score_table_cache = tab
    rows = []
    for pid in range(5):
        rows.append("[" + ", ".join(str(tab[(pid, tid)] if tab else -1) for tid in range(6)) + "]")
    sc.write_gen("score_table.rs", "// generated at check time: MultiPattern::score of the current tree, -1 = no match\n"
                 "pub const SCORE_TABLE_VALID: bool = %s;\npub static SCORE_TABLE: [[i64; 6]; 5] = [%s];\n" % ("true" if tab else "false", ", ".join(rows)))
    return None
