"""Instance generators for the K-nucleo engine (harnesses compiled into the `nucleo` crate)."""
from matcher_props import Inst, gen_text, _with_rules


def sort_instances(tier):
    out = []
    q = tier == "quick"
    def add(name, unwind, expr, bounds, small):
        i = Inst(name, unwind, expr, ["C18"], bounds, "nucleo_sort")
        i.small = small
        out.append(i)
    # composite under the REAL tuning constants: lengths up to 20 are the insertion-sort regime
    for l in ([3, 6] if q else [2, 3, 5, 7, 9, 10]):
        add("qs_real_uncancelled_l%d" % l, l + 3, "quicksort_uncancelled::<%d>()" % l, {"len": l, "constants": "real", "cancel": "never"}, False)
    for l in ([5] if q else [4, 7]):
        add("qs_real_cancelled_l%d" % l, l + 3, "quicksort_cancelled::<%d>()" % l, {"len": l, "constants": "real", "cancel": "symbolic moment"}, False)
    # composite under SHRUNK constants (MAX_INSERTION 3, MAX_SEQUENTIAL 6, BLOCK 4, ...): partitioning,
    # block tails, partition_equal, pattern breaking, heapsort fallback, the parallel branch
    for l in ([5, 8] if q else [4, 5, 6, 7, 8, 9, 10]):
        add("qs_small_uncancelled_l%d" % l, l + 4, "quicksort_uncancelled::<%d>()" % l, {"len": l, "constants": "shrunk", "cancel": "never"}, True)
    for l in ([8] if q else [8, 9, 10]):
        add("qs_small_cancelled_l%d" % l, l + 4, "quicksort_cancelled::<%d>()" % l, {"len": l, "constants": "shrunk", "cancel": "symbolic moment"}, True)
    for l in ([6] if q else [5, 6, 7, 8]):
        add("recurse_limit_small_l%d" % l, l + 4, "recurse_limit::<%d>()" % l, {"len": l, "constants": "shrunk", "imbalance_budget": "symbolic 0..4"}, True)
    # units under the real constants
    units = [("heapsort_unit", [5] if q else [2, 3, 5, 6, 8]), ("insertion_unit", [4] if q else [2, 4, 6]),
             ("partial_insertion_unit", [5] if q else [3, 5, 7]), ("partition_unit", [5] if q else [2, 3, 5, 7, 9]),
             ("partition_equal_unit", [4] if q else [2, 4, 6, 8]), ("choose_pivot_unit", [8] if q else [3, 8, 9]),
             ("break_patterns_unit", [8] if q else [8, 9, 12])]
    for fn, ls in units:
        for l in ls:
            add("%s_real_l%d" % (fn, l), max(l + 3, 6), "%s::<%d>()" % (fn, l), {"len": l, "constants": "real", "unit": fn}, False)
    if not q:
        for fn, ls in (("partition_unit", [6, 9, 10]), ("partial_insertion_unit", [6, 8]), ("choose_pivot_unit", [6, 8])):
            for l in ls:
                add("%s_small_l%d" % (fn, l), l + 4, "%s::<%d>()" % (fn, l), {"len": l, "constants": "shrunk", "unit": fn}, True)
    return out


def boxcar_instances(tier):
    out = []
    q = tier == "quick"
    def add(name, unwind, expr, props, bounds, small, rules=None):
        i = Inst(name, unwind, expr, props, bounds, "nucleo_boxcar")
        i.small = small
        if rules:
            i.unwind_rules = rules
        out.append(i)
    add("location_all_real", 4, "location_all()", ["C08"], {"index": "every u32 up to MAX_ENTRIES", "SKIP": 32}, False)
    add("location_all_small", 4, "location_all()", ["C08"], {"index": "every u32 up to MAX_ENTRIES", "SKIP": 2}, True)
    # histories (small geometry: buckets of 2, 4, 8, ... entries; eager capacity clamp 2)
    hs = [(0, 1, 0, 0, 1), (0, 2, 3, 3, 1), (2, 0, 5, 5, 0), (0, 0, 8, 0, 1), (1, 1, 3, 1, 2)] if q else \
         [(c, pre, rep, yld, post) for c in (0, 2) for pre in (0, 1, 3) for (rep, yld) in ((0, 0), (2, 2), (3, 1), (5, 5), (8, 0), (7, 2), (12, 3)) for post in (0, 1, 2)
          if pre + yld + post <= 12 and pre + rep + post <= 13]
    for c, pre, rep, yld, post in hs:
        add("history_c%d_p%d_r%d_y%d_q%d" % (c, pre, rep, yld, post), 34,
            "history::<%d, %d, %d, %d, %d>()" % (c, pre, rep, yld, post), ["C08", "C11"],
            {"capacity": c, "pushes_before": pre, "extend_reported": rep, "extend_yielded": yld, "pushes_after": post,
             "geometry": "small (SKIP 2)", "payloads": "symbolic", "lookup_index": "symbolic"}, True)
    return out


def proto_instances(tier):
    out = []
    q = tier == "quick"
    def add(name, unwind, expr, props, bounds, rules=None):
        i = Inst(name, unwind, expr, props, bounds, "nucleo_proto")
        i.small = True
        i.unwind_rules = rules or PROTO_RULES
        out.append(i)
    for st in ([3] if q else [3, 4, 5]):
        add("injector_count_s%d" % st, 8, "injector_count::<%d>()" % st, ["C20"],
            {"steps": st, "operations": "symbolic among injector/clone/drop/restart(b)/tick(0)/run completes", "handle_slots": 3})
    for it in ([1] if q else [0, 1, 2]):
        add("wakeup_i%d" % it, 8, "wakeup::<%d>()" % it, ["C13", "C06", "C19"],
            {"items": it, "ticks": 2, "timed_lock_outcomes": "symbolic: acquired in time / timed out / timed out and the run finishes before the tick re-arms", "worker_threads": 1})
    return out


# loops that really iterate more than the global bound (resolved per binary with cbmc --show-loops)
PROTO_RULES = [(r"array.*map|drain_array_with|try_from_fn|from_fn", 33), (r"boxcar.*Vec.*drop|boxcar::Vec.*as.*Drop", 33)]

FAMILIES = {"nucleo_sort": sort_instances, "nucleo_boxcar": boxcar_instances, "nucleo_proto": proto_instances}


def all_instances(tier):
    out = []
    for f in FAMILIES.values():
        out += f(tier)
    return out


def write_gen(sc, tier, extra=(), small=None):
    # RUSTFLAGS reach the nucleo-matcher dependency too: its harness module needs its generated files
    import matcher_props
    matcher_props.write_gen(sc, "quick")
    fams = {}
    for i in list(all_instances(tier)) + list(extra):
        if i.family and (small is None or getattr(i, "small", True) == small):
            fams.setdefault(i.family, [])
            if not any(j.name == i.name for j in fams[i.family]):
                fams[i.family].append(i)
    for fam in FAMILIES:
        sc.write_gen(fam + ".rs", gen_text(fams.get(fam, [])))
    return None
