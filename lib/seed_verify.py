#!/usr/bin/env python3
"""Confirm a seeded change: (1) applies to /repo HEAD, (2) the existing suite passes with it, (3) its
demonstration fails with it and passes without it. Usage: seed_verify.py <dir with patch.diff+demo.rs+notes.md> <seed id> <property>
Stores the confirmed seed under /verif/seeded/<seed id>/ with meta.json."""
import json, os, shutil, subprocess, sys, re
src, sid, prop = sys.argv[1], sys.argv[2], sys.argv[3]
WT = "/tmp/seedcheck-wt"
def sh(cmd, cwd=WT, timeout=1800):
    p = subprocess.run(cmd, shell=True, cwd=cwd, capture_output=True, text=True, timeout=timeout)
    return p.returncode, p.stdout + p.stderr
if not os.path.isdir(WT):
    subprocess.check_call("git -C /repo worktree add -q --detach %s HEAD" % WT, shell=True)
sh("git checkout -q --detach $(git -C /repo rev-parse HEAD) && git checkout -- . && git clean -fdq -e target")
notes = open(src + "/notes.md").read() if os.path.exists(src + "/notes.md") else ""
demo_dst = "tests/demo.rs" if re.search(r"(?<!matcher/)tests/demo\.rs", notes) and "matcher/tests/demo.rs" not in notes else "matcher/tests/demo.rs"
pkg = "nucleo" if demo_dst == "tests/demo.rs" else "nucleo-matcher"
os.makedirs(os.path.dirname(WT + "/" + demo_dst), exist_ok=True)
shutil.copy(src + "/demo.rs", WT + "/" + demo_dst)
env_threads = ""
rc0, out0 = sh("cargo test -p %s --test demo --offline 2>&1 | tail -15" % pkg)
clean_pass = "test result: ok" in out0
rc, out = sh("git apply %s/patch.diff" % src)
applied = rc == 0
rc1, out1 = sh("cargo test -p %s --test demo --offline 2>&1 | tail -25" % pkg)
mut_fail = "test result: FAILED" in out1 or "panicked" in out1
os.remove(WT + "/" + demo_dst)
rc2, out2 = sh("cargo test --workspace --offline 2>&1 | grep 'test result' ")
suite = [l for l in out2.splitlines() if "test result" in l]
suite_pass = bool(suite) and all(" 0 failed" in l for l in suite)
npass = sum(int(re.search(r"(\d+) passed", l).group(1)) for l in suite) if suite else 0
sh("git checkout -- . && git clean -fdq -e target")
ok = applied and clean_pass and mut_fail and suite_pass
print(json.dumps({"seed": sid, "applied": applied, "demo_passes_clean": clean_pass, "demo_fails_mutated": mut_fail,
                  "suite_passes_mutated": suite_pass, "suite_tests_passed": npass, "ok": ok}))
if not ok:
    print(out0[-800:]); print(out1[-800:]); print(out2[-500:])
    sys.exit(1)
dst = "/verif/seeded/%s" % sid
os.makedirs(dst, exist_ok=True)
shutil.copy(src + "/patch.diff", dst + "/patch.diff")
shutil.copy(src + "/demo.rs", dst + "/demo.rs")
if notes:
    open(dst + "/notes.md", "w").write(notes)
meta = {"seed": sid, "property": prop, "demo_location": demo_dst,
        "confirmed": {"patch_applies_to_repo_HEAD": True, "existing_suite_passes_with_change": "%d tests passed, 0 failed (cargo test --workspace --offline)" % npass,
                      "demo_fails_with_change": True, "demo_passes_without_change": True},
        "ran": ["cargo test -p %s --test demo --offline (clean: pass; with patch: fail)" % pkg, "cargo test --workspace --offline (with patch: pass)"],
        "needs_to_manifest": "see notes.md", "detected_by": None}
json.dump(meta, open(dst + "/meta.json", "w"), indent=1)
