#!/usr/bin/env python3
"""MANIFEST.setup_cmd: everything is built from files on disk by ./check itself; this only verifies the tools."""
import shutil, subprocess, sys
ok = True
for t in ("cargo", "rsync", "python3"):
    if not shutil.which(t):
        print("missing tool:", t); ok = False
try:
    out = subprocess.run(["cargo", "kani", "--version"], capture_output=True, text=True, timeout=120).stdout
    print(out.strip())
except Exception as e:
    print("cargo kani not usable:", e); ok = False
sys.exit(0 if ok else 1)
