"""C11, the clause Kani cannot reach (it does not model unwinding): "if a fill callback panics the item it was
called for is still dropped exactly once".

The nightly MIR of boxcar::Vec::push / extend (after drop elaboration: drop flags and cleanup blocks are
explicit) is turned into a transition system - program counter over basic blocks, one Boolean per drop flag,
ghost state for THE ITEM (moved out of its local? dropped how often? slot published?) - and z3 decides by
bounded model checking whether an exit is reachable at which the item is neither dropped exactly once nor
owned by a published slot:
  * `resume` after the unwind edge of a call of USER code (the fill callback, the iterator's next/len), and
  * `return`.
Data-dependent branches are nondeterministic; branches on drop flags follow the flag. Unwind edges of library
calls that cannot panic short of allocation failure are not taken (stated as outside the claim).
A satisfiable query yields a block path; it is confirmed natively (drop counters, a callback that panics)
before anything is reported."""
import re, subprocess, time, json

K_STEPS = 160


class ShapeError(Exception):
    pass


def parse_blocks(body):
    blocks = {}
    for m in re.finditer(r"^    (bb\d+)( \(cleanup\))?: \{\n(.*?)\n    \}", body, re.S | re.M):
        lines = [l.strip() for l in m.group(3).splitlines() if l.strip()]
        blocks[m.group(1)] = {"cleanup": bool(m.group(2)), "stmts": lines[:-1], "term": lines[-1]}
    if "bb0" not in blocks:
        raise ShapeError("no basic blocks parsed")
    return blocks


USER_CALL = re.compile(r"as Fn(Once|Mut)?<\(&T, &mut \[.*Utf32String\]\)>>::call(_once|_mut)?\(|as Iterator>::next\(|as ExactSizeIterator>::len\(")
FILL_CALL = re.compile(r"as Fn(Once|Mut)?<\(&T, &mut \[.*Utf32String\]\)>>::call(_once|_mut)?\(")


def model(body, item_debug_name):
    """-> dict(blocks, item local, flags, fill blocks)"""
    m = re.search(r"debug %s => (_\d+);" % re.escape(item_debug_name), body)
    if not m:
        raise ShapeError("no local named `%s`" % item_debug_name)
    item = m.group(1)
    blocks = parse_blocks(body[body.index("    bb0: {"):])
    flags = set()
    for b in blocks.values():
        mm = re.match(r"switchInt\((?:copy|move) (_\d+)\)", b["term"])
        if mm:
            loc = mm.group(1)
            assigns = [s for bb in blocks.values() for s in bb["stmts"] if s.startswith(loc + " = ")]
            if assigns and all(re.fullmatch(re.escape(loc) + r" = const (true|false);", s) for s in assigns):
                flags.add(loc)
    fill = [n for n, b in blocks.items() if FILL_CALL.search(b["term"])]
    if not fill:
        raise ShapeError("no call of the fill callback found")
    return {"blocks": blocks, "item": item, "flags": sorted(flags), "fill": fill}


def succs(term):
    """-> (kind, payload)"""
    if term in ("return;",):
        return ("return", None)
    if term.startswith("resume"):
        return ("resume", None)
    if term.startswith("unreachable") or "terminate" in term and "->" not in term:
        return ("stop", None)
    m = re.match(r"goto -> (bb\d+);", term)
    if m:
        return ("goto", m.group(1))
    m = re.match(r"switchInt\((?:copy|move) (_\d+)\) -> \[(.*)\];", term)
    if m:
        tg = [(a.strip(), b.strip()) for a, b in (x.split(":") for x in m.group(2).split(","))]
        return ("switch", (m.group(1), tg))
    m = re.match(r"drop\((_\d+)\) -> \[return: (bb\d+), unwind[: ]*(.*?)\];", term)
    if m:
        return ("drop", (m.group(1), m.group(2)))
    m = re.match(r"(?:assert\(.*\) -> \[success: (bb\d+), unwind[: ]*(.*?)\];)", term)
    if m:
        return ("call", (m.group(1), None, term))
    m = re.match(r".* -> \[return: (bb\d+), unwind[: ]*(.*?)\];", term)
    if m:
        uw = m.group(2)
        uw = uw if uw.startswith("bb") else None
        return ("call", (m.group(1), uw, term))
    m = re.match(r".* -> (bb\d+);", term)
    if m:
        return ("goto", m.group(1))
    raise ShapeError("unrecognised terminator: " + term[:120])


def smt(md, steps=K_STEPS, goal="violation"):
    B = md["blocks"]
    names = sorted(B, key=lambda s: int(s[2:]))
    idx = {n: i for i, n in enumerate(names)}
    item = md["item"]
    flags = md["flags"]
    out = ["(set-logic ALL)"]
    def decl(t):
        out.append("(declare-const pc_%d Int)" % t)
        for f in flags:
            out.append("(declare-const f%s_%d Bool)" % (f, t))
        for g in ("moved", "published", "viauser", "live"):
            out.append("(declare-const %s_%d Bool)" % (g, t))
        out.append("(declare-const dropped_%d Int)" % t)
    for t in range(steps + 1):
        decl(t)
    out.append("(assert (= pc_0 %d))" % idx["bb0"])
    # the item exists from the start when it is a parameter (push); for a loop variable it starts to exist at its assignment
    is_param = int(item[1:]) <= 3
    out.append("(assert (and (not moved_0) (not published_0) (not viauser_0) (= dropped_0 0) %s))" % ("live_0" if is_param else "(not live_0)"))
    for t in range(steps):
        cases = []
        for n in names:
            b = B[n]
            cur = {f: "f%s_%d" % (f, t) for f in flags}
            eff = []
            moved = "moved_%d" % t
            live = "live_%d" % t
            dropped = "dropped_%d" % t
            published = "published_%d" % t
            via = "viauser_%d" % t
            for s in b["stmts"]:
                mm = re.fullmatch(r"(_\d+) = const (true|false);", s)
                if mm and mm.group(1) in cur:
                    cur[mm.group(1)] = mm.group(2)
                if re.match(re.escape(item) + r" = ", s):
                    # a fresh item (loop variable): ghost state restarts
                    live, moved, published, dropped = "true", "false", "false", "0"
                if re.search(r"move " + re.escape(item) + r"\b(?!\.)", s) and not s.startswith(item + " = "):
                    moved = "true"
            kind, pl = succs(b["term"])
            nxt = []
            if re.search(r"move " + re.escape(item) + r"\b(?!\.)", b["term"]):
                moved = "true"
            if "Atomic::<bool>::store(" in b["term"] and "const true" in b["term"]:
                published = "(or %s %s)" % (published, moved)
            if kind in ("return", "resume", "stop"):
                nxt.append(("true", n, via))
            elif kind == "goto":
                nxt.append(("true", pl, via))
            elif kind == "switch":
                loc, tg = pl
                if loc in cur:
                    for val, dest in tg:
                        if val == "0":
                            nxt.append(("(not %s)" % cur[loc], dest, via))
                        else:
                            nxt.append((cur[loc], dest, via))
                else:
                    for val, dest in tg:
                        nxt.append(("true", dest, via))
            elif kind == "drop":
                loc, dest = pl
                if loc == item:
                    dropped = "(+ %s 1)" % dropped
                nxt.append(("true", dest, via))
            elif kind == "call":
                ret, uw, term = pl
                nxt.append(("true", ret, via))
                if uw and USER_CALL.search(term):
                    nxt.append(("true", uw, "true"))
            trans = []
            for cond, dest, v in nxt:
                parts = [cond, "(= pc_%d %d)" % (t + 1, idx[dest]), "(= viauser_%d %s)" % (t + 1, v)]
                trans.append("(and " + " ".join(parts) + ")")
            upd = ["(= moved_%d %s)" % (t + 1, moved), "(= live_%d %s)" % (t + 1, live), "(= dropped_%d %s)" % (t + 1, dropped),
                   "(= published_%d %s)" % (t + 1, published)]
            for f in flags:
                upd.append("(= f%s_%d %s)" % (f, t + 1, cur[f]))
            cases.append("(and (= pc_%d %d) (or %s) %s)" % (t, idx[n], " ".join(trans) if trans else "false", " ".join(upd)))
        out.append("(assert (or %s))" % " ".join(cases))
    exits = []
    ret_blocks = [n for n in names if succs(B[n]["term"])[0] == "return"]
    res_blocks = [n for n in names if succs(B[n]["term"])[0] == "resume"]
    for t in range(steps + 1):
        ok = "(or (and (= dropped_%d 1) (not published_%d)) (and (= dropped_%d 0) moved_%d published_%d))" % (t, t, t, t, t)
        at_ret = "(or false %s)" % " ".join("(= pc_%d %d)" % (t, idx[n]) for n in ret_blocks)
        at_res = "(or false %s)" % " ".join("(= pc_%d %d)" % (t, idx[n]) for n in res_blocks)
        if goal == "violation":
            exits.append("(and live_%d (not %s) (or %s (and %s viauser_%d)))" % (t, ok, at_ret, at_res, t))
        else:  # witness: the unwind exit after a panic in user code IS reachable with the item dropped exactly once
            exits.append("(and live_%d (= dropped_%d 1) (not moved_%d) %s viauser_%d)" % (t, t, t, at_res, t))
    out.append("(assert (or %s))" % " ".join(exits))
    out.append("(check-sat)")
    out.append("(get-value (%s))" % " ".join("pc_%d" % t for t in range(steps + 1)))
    return "\n".join(out) + "\n", names


def solve(text, cmd=("z3", "-in")):
    t0 = time.time()
    p = subprocess.run(list(cmd), input=text, capture_output=True, text=True, timeout=900)
    out = p.stdout
    if "(error" in out and not out.lstrip().startswith(("sat", "unsat")):
        return "error", out, time.time() - t0
    first = out.strip().splitlines()[0] if out.strip() else "error"
    return first, out, time.time() - t0


def path_of(out, names):
    pcs = [int(x) for x in re.findall(r"\(pc_\d+ (\d+)\)", out)]
    path = []
    for p in pcs:
        n = names[p]
        if not path or path[-1] != n:
            path.append(n)
    return path
