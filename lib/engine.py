"""Shared machinery of the /verif checks: scratch tree, Kani runs, result parsing, replay,
verdicts and evidence. Python stdlib only."""
import json, os, re, shutil, signal, subprocess, sys, time, threading, random

VERIF = os.path.dirname(os.path.dirname(os.path.abspath(__file__)))
REPO = os.environ.get("NUCLEO_REPO", "/repo")
NCPU = os.cpu_count() or 4


def log(*a):
    print(*a, file=sys.stderr, flush=True)


class Scratch:
    """A copy of /repo's *working tree* outside /repo and /verif, with the environment shims
    patched in. Removed on close()."""

    def __init__(self, tag, shims=("memchr",), keep=False):
        base = os.environ.get("NUCLEO_VERIF_SCRATCH", "/tmp")
        self.dir = os.path.join(base, "nucleo-verif-%s-%d" % (tag, os.getpid()))
        self.keep = keep
        shutil.rmtree(self.dir, ignore_errors=True)
        os.makedirs(self.dir)
        subprocess.check_call(["rsync", "-a", "--exclude", "target", "--exclude", ".git",
                               REPO + "/", self.dir + "/repo/"])
        self.repo = self.dir + "/repo"
        self.gen = self.dir + "/gen"
        self.shims = tuple(shims)
        os.makedirs(self.gen)
        self.set_shims(shims)

    def set_shims(self, shims):
        os.makedirs(self.repo + "/.cargo", exist_ok=True)
        with open(self.repo + "/.cargo/config.toml", "w") as f:
            f.write("[net]\noffline = true\n")
            if shims:
                f.write("[patch.crates-io]\n")
                for s in shims:
                    f.write('%s = { path = "%s/shims/%s" }\n' % (s, VERIF, s))

    def native_repo(self):
        """A second, unpatched copy of the tree for native builds (real memchr / rayon / parking_lot,
        the repository's own Cargo.lock) - never shared with the Kani tree."""
        d = self.dir + "/repo-native"
        if not os.path.isdir(d):
            subprocess.check_call(["rsync", "-a", "--exclude", "target", "--exclude", ".git", "--exclude", ".cargo",
                                   REPO + "/", d + "/"])
            os.makedirs(d + "/.cargo", exist_ok=True)
            with open(d + "/.cargo/config.toml", "w") as f:
                f.write("[net]\noffline = true\n")
        return d

    def check_shims_locked(self, shims):
        """the Kani tree must really have resolved the shims (a path dependency has no `source`)"""
        lock = open(self.repo + "/Cargo.lock").read()
        for sname in shims:
            ents = re.findall(r'\[\[package\]\]\nname = "%s"\nversion = "[^"]*"\n(source = [^\n]*\n)?' % re.escape(sname), lock)
            if len(ents) != 1 or ents[0] != "":
                raise BuildError("shim %s is not the one resolved in the Kani tree (Cargo.lock)" % sname)

    def env(self, small=True, extra_cfg=(), kani=False):
        e = dict(os.environ)
        flags = ["--cfg", "nucleo_verif"]
        if kani:
            # the Vec::push stub is generic over the allocator (Kani's toolchain is a nightly)
            flags += ["-Zcrate-attr=feature(allocator_api)", "-Zcrate-attr=feature(pattern)"]
        if small:
            flags += ["--cfg", "nucleo_verif_small"]
        for c in extra_cfg:
            flags += ["--cfg", c]
        e["RUSTFLAGS"] = " ".join(flags)
        e["NUCLEO_VERIF_DIR"] = VERIF + "/harness"
        e["NUCLEO_VERIF_GEN"] = self.gen
        e["CARGO_NET_OFFLINE"] = "true"
        e.pop("CARGO_TARGET_DIR", None)
        return e

    def write_gen(self, name, text):
        with open(os.path.join(self.gen, name), "w") as f:
            f.write(text)

    def close(self):
        if not self.keep:
            shutil.rmtree(self.dir, ignore_errors=True)


# ---------------------------------------------------------------------------------------------
# Kani
# ---------------------------------------------------------------------------------------------
class HarnessResult:
    def __init__(self, name):
        self.name = name
        self.status = "missing"      # ok | failed | unwind | error | timeout | missing
        self.failed = []             # [(description, location)]
        self.covers = {}             # description -> SATISFIED/UNSATISFIABLE/UNREACHABLE
        self.checks = 0
        self.time_s = 0.0
        self.solver_s = 0.0
        self.queries = 0
        self.vars = 0
        self.clauses = 0
        self.steps = 0

    def to_json(self):
        return {k: getattr(self, k) for k in
                ("name", "status", "checks", "time_s", "solver_s", "queries", "vars", "clauses", "steps")}


# CBMC is run directly on the goto binaries Kani generates (cargo kani --only-codegen): Kani's own
# driver asks CBMC for a JSON trace of every failed check *and every satisfied cover*, which for
# these programs costs 30-60 s per trace; the plain-text UI without traces is 3-5x faster. The
# flags below are the ones Kani 0.68 itself passes (observed with ps), the result post-processing
# mirrors Kani's (reachability_check ignored, cover FAILURE = SATISFIED, unsupported_construct
# reachable = inconclusive, unwinding assertion failure = inconclusive).
CBMC_FLAGS = ["--no-malloc-may-fail", "--no-undefined-shift-check", "--no-signed-overflow-check", "--nan-check",
              "--no-self-loops-to-assumptions", "--no-pointer-primitive-check", "--object-bits", "16",
              "--sat-solver", "cadical", "--slice-formula", "--verbosity", "8"]

RES_RE = re.compile(r"^\[(?P<id>[^\n]*?)\] (?:line (?P<line>\d+) )?(?P<desc>.*?): (?P<st>SUCCESS|FAILURE|UNKNOWN|ERROR)$", re.M | re.S)


def prop_class(pid):
    parts = pid.rsplit(".", 2)
    if len(parts) == 3 and parts[2].isdigit():
        return parts[1]
    if len(parts) >= 2 and parts[-1].isdigit():
        return parts[-2]
    return pid


def parse_cbmc_text(res, text):
    """Parse CBMC plain-text output of one harness."""
    for l in text.splitlines():
        s = l.strip()
        if s.startswith("Runtime Solver:"):
            res.solver_s += float(s.split(":")[1].strip().rstrip("s")); res.queries += 1
        elif s.startswith("size of program expression:"):
            res.steps = int(s.split(":")[1].split()[0])
        elif "variables," in s and "clauses" in s:
            m2 = re.match(r"(\d+) variables, (\d+) clauses", s)
            if m2:
                res.vars = int(m2.group(1)); res.clauses = int(m2.group(2))
    k = text.find("** Results:")
    if k < 0:
        res.status = "error"
        return
    body = text[k:]
    # result entries start with '[' at the beginning of a line and end with ': STATUS'
    entries = re.split(r"\n(?=\[)", body)
    unsupported = False
    unwind = False
    for e in entries:
        if not e.startswith("["):
            continue
        e = e.split("\n\n")[0]
        # the id ends in `.class.N` (or is `class.N`); it may itself contain ']' (slice types)
        m = re.match(r"^\[(?P<id>(?:.*?\.)?[A-Za-z_\-]+\.\d+)\] (?:line (?P<line>\d+) )?(?P<desc>.*): (?P<st>SUCCESS|FAILURE|UNKNOWN|ERROR)\s*$", e, re.S)
        if not m:
            continue
        pid = m.group("id"); desc = " ".join(m.group("desc").split()); st = m.group("st")
        cls = prop_class(pid)
        if cls == "reachability_check":
            continue
        desc = re.sub(r"^\[KANI_CHECK_ID_[^\]]*\]\s*", "", desc).strip('"')
        if cls == "cover":
            res.covers[desc] = "SATISFIED" if st == "FAILURE" else ("UNSATISFIABLE" if st == "SUCCESS" else st)
            continue
        res.checks += 1
        if st == "SUCCESS":
            continue
        if cls == "unsupported_construct":
            unsupported = True
            res.failed.append(("unsupported construct reachable: " + desc, pid, pid))
        elif cls == "unwind" or "unwinding assertion" in desc:
            unwind = True
            res.failed.append(("unwinding assertion: " + desc, pid, pid))
        else:
            res.failed.append((desc, "%s line %s" % (pid, m.group("line")), pid))
    if "VERIFICATION SUCCESSFUL" in body and not res.failed:
        res.status = "ok"
    elif unwind:
        res.status = "unwind"
    elif unsupported:
        res.status = "error"; res.note = "unsupported construct reachable"
    elif "VERIFICATION FAILED" in body or "VERIFICATION SUCCESSFUL" in body:
        res.status = "failed" if res.failed else "ok"
    else:
        res.status = "error"


def mem_watchdog(stop, cap_kb, killed):
    """kill any cbmc whose RSS exceeds the cap (62 GB box, no swap)"""
    while not stop.is_set():
        try:
            out = subprocess.run(["ps", "-eo", "pid,rss,comm"], capture_output=True, text=True).stdout
            for l in out.splitlines()[1:]:
                p = l.split()
                if len(p) >= 3 and p[2].startswith("cbmc") and int(p[1]) > cap_kb:
                    killed.append(int(p[0]))
                    os.kill(int(p[0]), signal.SIGKILL)
        except Exception:
            pass
        stop.wait(5)


def codegen(scratch, package, names, small=True, extra_cfg=(), extra_args=(), logdir=None):
    """cargo kani --only-codegen for all harnesses at once; returns {name: goto binary}."""
    args = ["cargo", "kani", "-p", package, "--only-codegen", "-Z", "stubbing"]
    for n in names:
        args += ["--harness", n]
    args += list(extra_args)
    p = subprocess.run(args, cwd=scratch.repo, env=scratch.env(small, extra_cfg, kani=True), capture_output=True, text=True)
    out = p.stdout + p.stderr
    if logdir:
        open(os.path.join(logdir, "codegen.log"), "w").write(out)
    if p.returncode != 0 or "error: could not compile" in out:
        errs = [l for l in out.splitlines() if l.startswith("error")]
        raise BuildError("\n".join(errs[:20]))
    base = os.path.join(scratch.repo, "target", "kani")
    newest = {}
    symtabs = {}
    for root, _, files in os.walk(base):
        for f in files:
            if not f.endswith(".symtab.out"):
                continue
            for n in names:
                if f.endswith("%d%s.symtab.out" % (len(n), n)):
                    fp = os.path.join(root, f)
                    mt = os.path.getmtime(fp)
                    if n not in newest or mt > newest[n]:
                        newest[n] = mt; symtabs[n] = fp
    return symtabs


KANI_LIB_C = os.path.expanduser("~/.kani/kani-0.68.0/library/kani/kani_lib.c")


def link_and_instrument(symtab, outdir, name):
    """The post-codegen steps of Kani 0.68's driver (observed with --verbose), verbatim."""
    base = os.path.basename(symtab)[:-len(".symtab.out")]
    mangled = "_R" + base.split("__R", 1)[1]
    out = os.path.join(outdir, name + ".goto")
    steps = [
        ["goto-cc", symtab, KANI_LIB_C, "-o", out],
        ["goto-cc", out, "--function", mangled, "-o", out],
        ["goto-instrument", "--add-library", "--no-malloc-may-fail", out, out],
        ["goto-instrument", "--generate-function-body-options", "assert-false-assume-false",
         "--generate-function-body", ".*", "--drop-unused-functions", out, out],
        ["goto-instrument", "--ensure-one-backedge-per-target", out, out],
    ]
    for st in steps:
        p = subprocess.run(st, capture_output=True, text=True)
        if p.returncode != 0:
            raise BuildError("%s failed: %s" % (st[0], (p.stdout + p.stderr)[-600:]))
    return out


def unwindset_args(goto, rules):
    """Per-loop bounds: `rules` = [(regex on the loop's function name / id, bound)], resolved against
    `cbmc --show-loops` of this very binary (loop ids are mangled and build specific)."""
    if not rules:
        return []
    out = subprocess.run(["cbmc", "--show-loops", goto], capture_output=True, text=True).stdout
    sets = []
    cur = None
    for line in out.splitlines():
        m = re.match(r"^Loop (\S+):$", line)
        if m:
            cur = m.group(1)
            continue
        if cur and "function" in line:
            fn = line.split(" function ", 1)[1] if " function " in line else ""
            for rx, bound in rules:
                if re.search(rx, fn) or re.search(rx, cur):
                    sets.append("%s:%d" % (cur, bound))
                    break
            cur = None
    return ["--unwindset", ",".join(sets)] if sets else []


def _big_stack():
    # CBMC's symbolic execution recurses with the depth of the call chain / expression nesting: the deep
    # harnesses of the protocol family overflow the default 8 MiB stack (SIGSEGV)
    import resource
    try:
        resource.setrlimit(resource.RLIMIT_STACK, (resource.RLIM_INFINITY, resource.RLIM_INFINITY))
    except (ValueError, OSError):
        pass


def run_one(scratch, name, goto, unwind, timeout_s, logdir, extra_cbmc=()):
    res = HarnessResult(name)
    logp = os.path.join(logdir, name + ".log")
    args = ["cbmc"] + CBMC_FLAGS + ["--unwind", str(unwind)] + list(extra_cbmc) + os.environ.get("VERIF_CBMC_EXTRA", "").split() + [goto]
    t0 = time.time()
    with open(logp, "w") as lf:
        p = subprocess.Popen(args, stdout=lf, stderr=subprocess.STDOUT, start_new_session=True, preexec_fn=_big_stack)
        try:
            p.wait(timeout=timeout_s)
            timed_out = False
        except subprocess.TimeoutExpired:
            timed_out = True
            try:
                os.killpg(p.pid, signal.SIGKILL)
            except Exception:
                pass
            p.wait()
    res.wall_s = time.time() - t0
    res.time_s = res.wall_s
    # keep logs small: drop the unwinding chatter
    text = "\n".join(l for l in open(logp, errors="replace").read().splitlines()
                     if not l.startswith(("Unwinding loop", "Not unwinding", "aborting path")))
    open(logp, "w").write(text)
    if timed_out:
        res.status = "timeout"
        return res
    parse_cbmc_text(res, text)
    if p.returncode not in (0, 10) and res.status in ("ok", "failed"):
        res.status = "error"
    if p.returncode < 0 or p.returncode == 137:
        res.status = "error"; res.note = "cbmc killed (signal / out of memory)"
    return res


def run_kani(scratch, package, insts, jobs, timeout_s, small=True, extra_cfg=(), extra_args=(),
             mem_cap_gb=14, per_harness_timeout_s=None, logname="cbmc", pre_codegen=None):
    """Compile every harness once (Kani), then decide each with CBMC, `jobs` at a time.
    insts: objects with .name and .unwind. Returns ({name: HarnessResult}, wall_s, logdir)."""
    from concurrent.futures import ThreadPoolExecutor
    logdir = os.path.join(scratch.dir, logname)
    os.makedirs(logdir, exist_ok=True)
    t0 = time.time()
    names = [i.name for i in insts]
    # instances may ask for the real or the shrunk geometry: one codegen pass per group
    gotos = {}
    groups = {}
    for i in insts:
        groups.setdefault(getattr(i, "small", small), []).append(i)
    for sm, group in groups.items():
        if pre_codegen:
            pre_codegen(sm)
        gotos.update(codegen(scratch, package, [i.name for i in group], sm, extra_cfg, extra_args, logdir))
    scratch.check_shims_locked(scratch.shims)
    log("   codegen of %d harnesses: %.0fs" % (len(names), time.time() - t0))
    stop = threading.Event(); killed = []
    wd = threading.Thread(target=mem_watchdog, args=(stop, mem_cap_gb * 1024 * 1024, killed), daemon=True)
    wd.start()
    deadline = time.time() + timeout_s   # the budget starts when code generation is done
    results = {}

    def work(inst):
        n = inst.name
        if n not in gotos:
            r = HarnessResult(n); r.status = "missing"; r.note = "no goto binary produced"
            return r
        left = deadline - time.time()
        if left < 20:
            r = HarnessResult(n); r.status = "timeout"; r.note = "tier budget used up before this instance was started"
            return r
        # with a per-instance cap the budget only limits which instances are STARTED
        t = left if per_harness_timeout_s is None else per_harness_timeout_s
        goto = link_and_instrument(gotos[n], logdir, n)
        try:
            return run_one(scratch, n, goto, inst.unwind, t, logdir,
                           extra_cbmc=unwindset_args(goto, getattr(inst, "unwind_rules", None)) + list(getattr(inst, "cbmc_extra", ())))
        finally:
            try:
                if not scratch.keep:
                    os.remove(goto)
            except OSError:
                pass

    with ThreadPoolExecutor(max_workers=max(1, jobs)) as ex:
        for r in ex.map(work, insts):
            results[r.name] = r
            log("   %-46s %-8s %5.0fs steps=%d vars=%d queries=%d" % (r.name, r.status, getattr(r, "wall_s", 0), r.steps, r.vars, r.queries))
    stop.set()
    if killed:
        for r in results.values():
            if r.status in ("error", "missing"):
                r.note = "cbmc killed by the memory watchdog (> %d GB)" % mem_cap_gb
    for r in results.values():
        r.symtab = gotos.get(r.name)
    return results, time.time() - t0, logdir


class BuildError(Exception):
    pass


# ---------------------------------------------------------------------------------------------
# counterexample extraction + native replay
# ---------------------------------------------------------------------------------------------
WIDTH = {"u8": 1, "bool": 1, "u16": 2, "u32": 4, "usize": 8, "u64": 8}


_SRC = {}


def _src_line(path, n):
    if path not in _SRC:
        try:
            _SRC[path] = open(path).read().splitlines()
        except OSError:
            _SRC[path] = []
    ls = _SRC[path]
    return ls[n - 1] if 0 < n <= len(ls) else ""


def parse_trace_tape(text):
    """The ordered list of values drawn through /verif/harness/*/sym.rs in a CBMC plain-text trace.
    Every draw is a local named draw_<type> inside a function of the `sym` module."""
    tape = []
    cur_fn = None
    cur_ok = False
    for line in text.splitlines():
        if line.startswith("State "):
            m = re.search(r" function (\S+)", line)
            cur_fn = m.group(1) if m else None
            # only the assignment at the `let draw_..` line counts: an unsliced trace also lists the
            # declaration of the local (an arbitrary value, at the line of the function header)
            mf = re.search(r" file (\S+) function \S+ line (\d+)", line)
            cur_ok = bool(mf) and "let draw_" in _src_line(mf.group(1), int(mf.group(2)))
            continue
        m = re.match(r"^\s+draw_(\w+)=(.*)$", line)
        if not m or not cur_fn or "::sym::" not in cur_fn or not cur_ok:
            continue
        ty, rest = m.group(1), m.group(2).strip()
        if ty == "bytes":
            mm = re.match(r"^\{([^}]*)\}", rest)
            if not mm:
                continue
            vals = [int(re.sub(r"[^0-9-]", "", x) or "0") & 0xFF for x in mm.group(1).split(",") if x.strip()]
            tape.append(vals)
            continue
        w = WIDTH.get(ty)
        if w is None:
            continue
        mb = re.search(r"\(([01 ]+)\)\s*$", rest)
        if mb:
            v = int(mb.group(1).replace(" ", ""), 2)
        elif rest.startswith("TRUE"):
            v = 1
        elif rest.startswith("FALSE"):
            v = 0
        else:
            v = int(re.sub(r"[^0-9-]", "", rest.split()[0]) or "0")
        tape.append(list((v & ((1 << (8 * w)) - 1)).to_bytes(w, "little")))
    return tape


def extract_tapes(scratch, symtab, name, unwind, prop_ids, logdir, timeout_s=1200, extra_cbmc=(), unwind_rules=None):
    extra_cbmc = list(extra_cbmc)
    """One CBMC query per failed property (--property, with --trace): the satisfying assignment is the
    counterexample; its draws, in order, are the replay tape."""
    goto = link_and_instrument(symtab, logdir, name + ".cex")
    tapes = []
    extra_cbmc = list(extra_cbmc) + unwindset_args(goto, unwind_rules)
    try:
        for pid in prop_ids[:3]:
            # no --slice-formula here: the slicer removes the draws the failed assertion does not depend
            # on from the trace, and the tape would be misaligned (the sliced run is only the fallback)
            for flags in ([f for f in CBMC_FLAGS if f != "--slice-formula"], CBMC_FLAGS):
                args = ["cbmc"] + flags + ["--unwind", str(unwind), "--trace", "--property", pid] + list(extra_cbmc) + [goto]
                try:
                    out = subprocess.run(args, capture_output=True, text=True, timeout=timeout_s, preexec_fn=_big_stack).stdout
                except subprocess.TimeoutExpired:
                    continue
                if "VERIFICATION FAILED" not in out:
                    continue
                t = parse_trace_tape(out)   # may be empty: a harness without symbolic draws
                if t not in tapes:
                    tapes.append(t)
                break
    finally:
        try:
            os.remove(goto)
        except OSError:
            pass
    return tapes


def native_replay(scratch, package, name, tape, profile, small=True, extra_cfg=(), test_path="verif::replay::run",
                  real_deps=True, with_shims=False):
    """Run the harness body natively on the tape (real memchr etc.). Returns (result, output)."""
    os.makedirs(scratch.dir + "/replay", exist_ok=True)
    f = scratch.dir + "/replay/%s.%s.tape" % (name, profile)
    with open(f, "w") as fh:
        fh.write(name + "\n")
        for v in tape:
            fh.write(" ".join(str(b) for b in v) + "\n")
    if with_shims:
        # the protocol harnesses replay against the real nucleo code linked with the single-threaded
        # shims (the schedule of a counterexample only exists in that model)
        extra_cfg = tuple(extra_cfg) + ("nucleo_verif_shims",)
    env = scratch.env(small, extra_cfg)
    env["NUCLEO_VERIF_REPLAY"] = f
    env["CARGO_TARGET_DIR"] = scratch.dir + ("/native-target-shims" if with_shims else "/native-target")
    args = ["cargo", "test", "-p", package, "--lib", "--offline"]
    if profile == "release":
        args.append("--release")
    args += [test_path, "--", "--exact", "--nocapture", "--test-threads", "1"]
    p = subprocess.run(args, cwd=scratch.repo if with_shims else scratch.native_repo(), env=env, capture_output=True, text=True, timeout=1200)
    out = p.stdout + p.stderr
    m = re.search(r"REPLAY-RESULT (\w+)", out)
    if "REPLAY-ASSUME-FAILED" in out:
        return "assume-failed", out
    if m:
        return m.group(1), out
    if "could not compile" in out:
        log(out[-3000:])
        return "native-build-error", out[-3000:]
    if "panicked" in out:
        return "panic", out
    return "unknown", out[-2000:]


def score_table(scratch, package="nucleo", test_path="verif::replay::score_table"):
    """The real MultiPattern::score of the current tree on the (pattern, text) pairs of scored_h.rs, computed
    natively (real dependencies). Returns {(pid, tid): score or -1} or None."""
    env = scratch.env(True)
    env["CARGO_TARGET_DIR"] = scratch.dir + "/native-target"
    p = subprocess.run(["cargo", "test", "-p", package, "--lib", "--offline", test_path, "--", "--exact", "--nocapture"],
                       cwd=scratch.native_repo(), env=env, capture_output=True, text=True, timeout=1200)
    rows = re.findall(r"SCORE-TABLE (\d+) (\d+) (-?\d+)", p.stdout + p.stderr)
    if p.returncode != 0 or not rows:
        log((p.stdout + p.stderr)[-1500:])
        return None
    return {(int(a), int(b)): int(c) for a, b, c in rows}


def oracle_selftest(scratch, package, small=True, test_path="verif::replay::oracle_selftest"):
    """Push the repository's own test vectors through the oracle natively. Returns number validated, or None."""
    env = scratch.env(small)
    env["CARGO_TARGET_DIR"] = scratch.dir + "/native-target"
    p = subprocess.run(["cargo", "test", "-p", package, "--lib", "--offline", test_path, "--", "--exact", "--nocapture"],
                       cwd=scratch.native_repo(), env=env, capture_output=True, text=True, timeout=1200)
    m = re.search(r"ORACLE-SELFTEST-OK (\d+)", p.stdout + p.stderr)
    if p.returncode != 0 or not m:
        log((p.stdout + p.stderr)[-1500:])
        return None
    return int(m.group(1))


# ---------------------------------------------------------------------------------------------
# evidence
# ---------------------------------------------------------------------------------------------
def write_evidence(pid, tier, seed, coverage, assumptions, wall_s, violations, level="model_checking"):
    evdir = os.environ.get("VERIF_EVIDENCE_DIR", VERIF + "/evidence")
    os.makedirs(evdir, exist_ok=True)
    ev = {
        "property_id": pid,
        "tier": tier,
        "seed": seed,
        "level": level,
        "coverage": coverage,
        "assumptions": assumptions,
        "wall_s": round(wall_s, 1),
        "violations": violations,
    }
    tmp = evdir + "/%s.json.tmp" % pid
    with open(tmp, "w") as f:
        json.dump(ev, f, indent=1)
    os.replace(tmp, evdir + "/%s.json" % pid)


def load_known_findings():
    p = VERIF + "/known_findings.json"
    if not os.path.exists(p):
        return {"findings": [], "fixed": []}
    return json.load(open(p))
