"""Shared machinery of the /verif checks: scratch tree, Kani runs, result parsing, replay,
verdicts and evidence. Python stdlib only."""
import json, os, re, shutil, signal, subprocess, sys, time, threading, random

VERIF = os.path.dirname(os.path.dirname(os.path.abspath(__file__)))
REPO = os.environ.get("NUCLEO_REPO", "/repo")
NCPU = os.cpu_count() or 4


def log(*a):
    print(*a, file=sys.stderr, flush=True)


class Scratch:
    """A copy of /repo's *working tree* outside /repo and /verif, with the environment shims
    patched in. Removed on close()."""

    def __init__(self, tag, shims=("memchr",), keep=False):
        base = os.environ.get("NUCLEO_VERIF_SCRATCH", "/tmp")
        self.dir = os.path.join(base, "nucleo-verif-%s-%d" % (tag, os.getpid()))
        self.keep = keep
        shutil.rmtree(self.dir, ignore_errors=True)
        os.makedirs(self.dir)
        subprocess.check_call(["rsync", "-a", "--exclude", "target", "--exclude", ".git",
                               REPO + "/", self.dir + "/repo/"])
        self.repo = self.dir + "/repo"
        self.gen = self.dir + "/gen"
        os.makedirs(self.gen)
        self.set_shims(shims)

    def set_shims(self, shims):
        os.makedirs(self.repo + "/.cargo", exist_ok=True)
        with open(self.repo + "/.cargo/config.toml", "w") as f:
            f.write("[net]\noffline = true\n")
            if shims:
                f.write("[patch.crates-io]\n")
                for s in shims:
                    f.write('%s = { path = "%s/shims/%s" }\n' % (s, VERIF, s))

    def env(self, small=True, extra_cfg=()):
        e = dict(os.environ)
        flags = ["--cfg", "nucleo_verif"]
        if small:
            flags += ["--cfg", "nucleo_verif_small"]
        for c in extra_cfg:
            flags += ["--cfg", c]
        e["RUSTFLAGS"] = " ".join(flags)
        e["NUCLEO_VERIF_DIR"] = VERIF + "/harness"
        e["NUCLEO_VERIF_GEN"] = self.gen
        e["CARGO_NET_OFFLINE"] = "true"
        e.pop("CARGO_TARGET_DIR", None)
        return e

    def write_gen(self, name, text):
        with open(os.path.join(self.gen, name), "w") as f:
            f.write(text)

    def close(self):
        if not self.keep:
            shutil.rmtree(self.dir, ignore_errors=True)


# ---------------------------------------------------------------------------------------------
# Kani
# ---------------------------------------------------------------------------------------------
class HarnessResult:
    def __init__(self, name):
        self.name = name
        self.status = "missing"      # ok | failed | unwind | error | timeout | missing
        self.failed = []             # [(description, location)]
        self.covers = {}             # description -> SATISFIED/UNSATISFIABLE/UNREACHABLE
        self.checks = 0
        self.time_s = 0.0
        self.solver_s = 0.0
        self.queries = 0
        self.vars = 0
        self.clauses = 0
        self.steps = 0

    def to_json(self):
        return {k: getattr(self, k) for k in
                ("name", "status", "checks", "time_s", "solver_s", "queries", "vars", "clauses", "steps")}


CHECK_RE = re.compile(r"^Check (\d+): (\S+)")


def parse_block(res, text):
    """Parse one harness's regular-format output."""
    cur = None
    for line in text.splitlines():
        m = CHECK_RE.match(line)
        if m:
            cur = {"id": m.group(2)}
            res.checks += 1
            continue
        s = line.strip()
        if cur is not None and s.startswith("- Status:"):
            cur["status"] = s.split(":", 1)[1].strip()
        elif cur is not None and s.startswith("- Description:"):
            cur["desc"] = s.split(":", 1)[1].strip().strip('"')
        elif cur is not None and s.startswith("- Location:"):
            cur["loc"] = s.split(":", 1)[1].strip()
            st = cur.get("status", "")
            d = cur.get("desc", "")
            if ".cover." in cur["id"] or cur["id"].endswith(".cover"):
                res.covers[d] = st
                res.checks -= 1
            elif st == "FAILURE":
                res.failed.append((d, cur["loc"], cur["id"]))
            elif st not in ("SUCCESS", "UNREACHABLE", "UNDETERMINED"):
                res.failed.append(("status %s: %s" % (st, d), cur["loc"], cur["id"]))
            cur = None
        elif s.startswith("Runtime Solver:"):
            res.solver_s += float(s.split(":")[1].strip().rstrip("s"))
            res.queries += 1
        elif s.startswith("size of program expression:"):
            res.steps = int(s.split(":")[1].split()[0])
        elif "variables," in s and "clauses" in s:
            m2 = re.match(r"(\d+) variables, (\d+) clauses", s)
            if m2:
                res.vars = int(m2.group(1)); res.clauses = int(m2.group(2))
        elif s.startswith("Verification Time:"):
            res.time_s = float(s.split(":")[1].strip().rstrip("s"))
        elif s.startswith("VERIFICATION:-"):
            v = s.split(":-")[1].strip()
            res.verdict_line = v
    v = getattr(res, "verdict_line", None)
    unwind = any("unwinding assertion" in d for d, _, _ in res.failed)
    if v is None:
        res.status = "error"
    elif v.startswith("SUCCESSFUL"):
        res.status = "ok"
    elif unwind:
        res.status = "unwind"
    elif res.failed:
        res.status = "failed"
    else:
        res.status = "error"
    if "CBMC failed" in text or "Status: ERROR" in text or "out of memory" in text.lower():
        if not res.failed or unwind:
            res.status = "error"


def split_output(out, names):
    """Split the output of one `cargo kani` invocation (possibly -j N) into per-harness blocks."""
    results = {n: HarnessResult(n) for n in names}
    short = {}
    blocks = {}
    thread_cur = {}
    cur_name = None
    cur_thread = None
    for line in out.splitlines():
        m = re.match(r"^(?:Thread (\d+): )?Checking harness (\S+?)\.\.\.$", line.strip())
        if m:
            t = m.group(1)
            full = m.group(2)
            nm = full.split("::")[-1]
            if t is None:
                cur_name = nm
                cur_thread = None
            else:
                thread_cur[t] = nm
            blocks.setdefault(nm, [])
            continue
        m = re.match(r"^Thread (\d+):\s*(.*)$", line)
        if m:
            cur_thread = m.group(1)
            cur_name = thread_cur.get(cur_thread)
            if cur_name is not None:
                blocks.setdefault(cur_name, []).append(m.group(2))
            continue
        if cur_name is not None:
            blocks.setdefault(cur_name, []).append(line)
    for nm, lines in blocks.items():
        if nm in results:
            parse_block(results[nm], "\n".join(lines))
    return results


def mem_watchdog(stop, cap_kb, killed):
    """kill any cbmc whose RSS exceeds the cap (62 GB box, no swap)"""
    while not stop.is_set():
        try:
            out = subprocess.run(["ps", "-eo", "pid,rss,comm"], capture_output=True, text=True).stdout
            for l in out.splitlines()[1:]:
                p = l.split()
                if len(p) >= 3 and p[2].startswith("cbmc") and int(p[1]) > cap_kb:
                    killed.append(int(p[0]))
                    os.kill(int(p[0]), signal.SIGKILL)
        except Exception:
            pass
        stop.wait(5)


def run_one(scratch, package, name, timeout_s, small, extra_cfg, extra_args, logdir):
    args = ["cargo", "kani", "-p", package, "--harness", name] + list(extra_args)
    logp = os.path.join(logdir, name + ".log")
    res = HarnessResult(name)
    t0 = time.time()
    with open(logp, "w") as lf:
        p = subprocess.Popen(args, cwd=scratch.repo, env=scratch.env(small, extra_cfg), stdout=lf,
                             stderr=subprocess.STDOUT, start_new_session=True)
        try:
            p.wait(timeout=timeout_s)
            timed_out = False
        except subprocess.TimeoutExpired:
            timed_out = True
            try:
                os.killpg(p.pid, signal.SIGKILL)
            except Exception:
                pass
            p.wait()
    out = open(logp, errors="replace").read()
    if "error: could not compile" in out or re.search(r"^error(\[E\d+\])?:", out, re.M) and "VERIFICATION" not in out:
        errs = [l for l in out.splitlines() if l.startswith("error")]
        res.status = "build-error"
        res.note = "\n".join(errs[:20]) + "\n(see %s)" % logp
        return res
    parse_block(res, out)
    res.wall_s = time.time() - t0
    if timed_out:
        res.status = "timeout"
    return res


def run_kani(scratch, package, names, jobs, timeout_s, small=True, extra_cfg=(), extra_args=(),
             mem_cap_gb=12, per_harness_timeout_s=None, logname="kani"):
    """Runs every harness in its own cargo-kani process (regular output: per-check and per-cover
    results), `jobs` at a time, sharing one target dir (cargo serialises the short compile steps).
    Returns ({name: HarnessResult}, wall_s, logdir)."""
    from concurrent.futures import ThreadPoolExecutor
    logdir = os.path.join(scratch.dir, logname)
    os.makedirs(logdir, exist_ok=True)
    t0 = time.time()
    stop = threading.Event(); killed = []
    wd = threading.Thread(target=mem_watchdog, args=(stop, mem_cap_gb * 1024 * 1024, killed), daemon=True)
    wd.start()
    deadline = t0 + timeout_s
    results = {}

    def work(n):
        left = deadline - time.time()
        if left < 20:
            r = HarnessResult(n); r.status = "timeout"; r.note = "tier cap reached before start"
            return r
        t = left if per_harness_timeout_s is None else min(left, per_harness_timeout_s)
        return run_one(scratch, package, n, t, small, extra_cfg, extra_args, logdir)

    # warm the dependency build once so the parallel jobs only compile the crate under test
    with ThreadPoolExecutor(max_workers=max(1, jobs)) as ex:
        for r in ex.map(work, names):
            results[r.name] = r
            log("   %-44s %-8s %6.0fs  steps=%d vars=%d" % (r.name, r.status, getattr(r, "wall_s", 0), r.steps, r.vars))
    stop.set()
    be = [r for r in results.values() if r.status == "build-error"]
    if be:
        raise BuildError(be[0].note)
    if killed:
        for r in results.values():
            if r.status in ("error", "missing"):
                r.note = "cbmc killed by the memory watchdog (> %d GB)" % mem_cap_gb
    return results, time.time() - t0, logdir


class BuildError(Exception):
    pass


# ---------------------------------------------------------------------------------------------
# counterexample extraction + native replay
# ---------------------------------------------------------------------------------------------
def concrete_playback(scratch, package, name, small=True, extra_cfg=(), extra_args=(), timeout_s=1800):
    """Re-run one failing harness with concrete playback and return the list of byte vectors."""
    args = ["cargo", "kani", "-p", package, "--harness", name, "-Z", "concrete-playback",
            "--concrete-playback=print"] + list(extra_args)
    try:
        out = subprocess.run(args, cwd=scratch.repo, env=scratch.env(small, extra_cfg), capture_output=True,
                             text=True, timeout=timeout_s).stdout
    except subprocess.TimeoutExpired:
        return None
    tapes = []
    # the printed unit test contains: let concrete_vals: Vec<Vec<u8>> = vec![ // comment \n vec![..], ... ];
    for m in re.finditer(r"let concrete_vals: Vec<Vec<u8>> = vec!\[(.*?)\];\s*kani::concrete_playback_run", out, re.S):
        body = m.group(1)
        tape = []
        for v in re.finditer(r"vec!\[([0-9,\s]*)\]", body):
            nums = [int(x) for x in v.group(1).replace("\n", " ").split(",") if x.strip()]
            tape.append(nums)
        tapes.append(tape)
    return tapes


def native_replay(scratch, package, name, tape, profile, small=True, extra_cfg=(), test_path="verif::replay::run",
                  real_deps=True):
    """Run the harness body natively on the tape (real memchr etc.). Returns (result, output)."""
    os.makedirs(scratch.dir + "/replay", exist_ok=True)
    f = scratch.dir + "/replay/%s.%s.tape" % (name, profile)
    with open(f, "w") as fh:
        fh.write(name + "\n")
        for v in tape:
            fh.write(" ".join(str(b) for b in v) + "\n")
    env = scratch.env(small, extra_cfg)
    env["NUCLEO_VERIF_REPLAY"] = f
    env["CARGO_TARGET_DIR"] = scratch.dir + "/native-target"
    cfgp = scratch.repo + "/.cargo/config.toml"
    saved = open(cfgp).read()
    if real_deps:
        with open(cfgp, "w") as fh:
            fh.write("[net]\noffline = true\n")
    try:
        args = ["cargo", "test", "-p", package, "--lib", "--offline"]
        if profile == "release":
            args.append("--release")
        args += [test_path, "--", "--exact", "--nocapture", "--test-threads", "1"]
        p = subprocess.run(args, cwd=scratch.repo, env=env, capture_output=True, text=True, timeout=1200)
        out = p.stdout + p.stderr
    finally:
        with open(cfgp, "w") as fh:
            fh.write(saved)
    m = re.search(r"REPLAY-RESULT (\w+)", out)
    if "REPLAY-ASSUME-FAILED" in out:
        return "assume-failed", out
    if m:
        return m.group(1), out
    if "panicked" in out:
        return "panic", out
    return "unknown", out


# ---------------------------------------------------------------------------------------------
# evidence
# ---------------------------------------------------------------------------------------------
def write_evidence(pid, tier, seed, coverage, assumptions, wall_s, violations, level="model_checking"):
    os.makedirs(VERIF + "/evidence", exist_ok=True)
    ev = {
        "property_id": pid,
        "tier": tier,
        "seed": seed,
        "level": level,
        "coverage": coverage,
        "assumptions": assumptions,
        "wall_s": round(wall_s, 1),
        "violations": violations,
    }
    tmp = VERIF + "/evidence/%s.json.tmp" % pid
    with open(tmp, "w") as f:
        json.dump(ev, f, indent=1)
    os.replace(tmp, VERIF + "/evidence/%s.json" % pid)


def load_known_findings():
    p = VERIF + "/known_findings.json"
    if not os.path.exists(p):
        return {"findings": [], "fixed": []}
    return json.load(open(p))
