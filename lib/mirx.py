"""X-mirx-lite: data-race freedom of the item vector's publication protocol (C09), decided by an
SMT solver over an RC11-style axiomatic model whose events - the atomic operations, their memory
orderings and the non-atomic initialising writes - are EXTRACTED FROM THE MIR of /repo's current
source on every run.

What is extracted (nightly `-Zunpretty=mir`, ~10 s): for each of the functions
  Vec::{push, extend, get, get_unchecked, get_or_alloc, count, snapshot, par_snapshot}, Iter::next,
  Bucket::{alloc, dealloc}
the ordered list of calls `Atomic::<T>::{load, store, fetch_add, compare_exchange}` with the
`Ordering` constants assigned to their ordering arguments, the atomic's type (Atomic<u64> = the
reservation counter, Atomic<*mut Entry<T>> = a bucket pointer, Atomic<bool> = an entry's active
flag), and the non-atomic `ptr::write`s of flag / slot / column memory.
The extraction is checked against the expected SHAPE of each function (which atomics it touches,
in which order); an unexpected shape makes the run inconclusive (exit 2) rather than guessed.

The model: scenario templates (threads x operations) instantiate events with the extracted
orderings; reads-from is symbolic; synchronises-with = release store/RMW read by an acquire load
(release sequences are not needed: every location has a single releasing write per scenario);
happens-before = (program order U synchronises-with)+; a DATA RACE = two accesses to the same
location from different threads, at least one non-atomic, not ordered by happens-before, in a
consistent execution. z3 decides each scenario (cvc5 cross-checks); a satisfiable race query is
confirmed with Miri's data-race detector on a generated test before it is reported.
"""
import os, re, subprocess, json, time

WEAK = {"Relaxed": 0, "Acquire": 1, "Release": 2, "AcqRel": 3, "SeqCst": 4}


def is_acq(o):
    return o in ("Acquire", "AcqRel", "SeqCst")


def is_rel(o):
    return o in ("Release", "AcqRel", "SeqCst")


def dump_mir(repo_dir, out_path):
    env = dict(os.environ, CARGO_NET_OFFLINE="true", CARGO_TARGET_DIR=os.path.join(os.path.dirname(out_path), "mir-target"))
    env.pop("RUSTFLAGS", None)
    subprocess.run(["touch", os.path.join(repo_dir, "src/lib.rs")])
    with open(out_path, "w") as f:
        p = subprocess.run(["cargo", "+nightly", "rustc", "--offline", "--lib", "--", "-Zunpretty=mir", "-C", "debug-assertions=off"],
                           cwd=repo_dir, env=env, stdout=f, stderr=subprocess.PIPE, text=True)
    if p.returncode != 0:
        raise RuntimeError("MIR dump failed: " + p.stderr[-800:])
    return open(out_path).read()


def functions(mir):
    """name -> body text; names like `boxcar::<impl at src/boxcar.rs:51:1: 51:15>::get`"""
    out = {}
    cur = None
    buf = []
    for line in mir.splitlines():
        m = re.match(r"^fn (.*?)\(", line)
        if m and not line.startswith(" "):
            if cur:
                out.setdefault(cur, "\n".join(buf))
            cur = m.group(1)
            buf = [line]
        elif cur:
            buf.append(line)
            if line == "}":
                out.setdefault(cur, "\n".join(buf))
                cur = None
                buf = []
    return out


def find_fn(fns, impl_line_hint, method):
    """boxcar functions are printed as `boxcar::<impl at src/boxcar.rs:L:C: L:C>::method`"""
    cands = [n for n in fns if n.startswith("boxcar::<impl at src/boxcar.rs:") and n.endswith(">::" + method)]
    return cands


ATOMIC_CALL = re.compile(r"= Atomic::<(?P<ty>[^>]*(?:<[^>]*>)?[^>]*)>::(?P<op>load|store|fetch_add|compare_exchange|swap)\((?P<args>.*?)\) ->")
ORD_ASSIGN = re.compile(r"^\s*(_\d+) = std::sync::atomic::Ordering::(\w+);")
NA_WRITE = re.compile(r"= std::ptr::mut_ptr::<impl \*mut (?P<ty>.*?)>::write\(")


def classify(ty):
    ty = ty.strip()
    if ty == "u64":
        return "counter"
    if ty == "bool":
        return "active"
    if ty.startswith("*mut") and "Entry" in ty:
        return "bucket"
    return "other:" + ty


def events_of(body):
    """ordered atomic operations and non-atomic initialising writes of one MIR body"""
    ords = {}
    ev = []
    for line in body.splitlines():
        m = ORD_ASSIGN.match(line)
        if m:
            ords[m.group(1)] = m.group(2)
            continue
        m = ATOMIC_CALL.search(line)
        if m:
            args = [a.strip() for a in m.group("args").split(",")]
            os_ = []
            for a in args:
                mm = re.match(r"(?:move|copy) (_\d+)$", a)
                if mm and mm.group(1) in ords:
                    os_.append(ords[mm.group(1)])
                mm = re.match(r"const (?:std::sync::atomic::)?Ordering::(\w+)", a)
                if mm:
                    os_.append(mm.group(1))
            ev.append({"kind": "atomic", "loc": classify(m.group("ty")), "op": m.group("op"), "orderings": os_})
            continue
        m = NA_WRITE.search(line)
        if m:
            t = m.group("ty")
            if "Atomic<bool>" in t or "AtomicBool" in t:
                ev.append({"kind": "na_write", "loc": "active"})
            elif "MaybeUninit<Utf32String>" in t:
                ev.append({"kind": "na_write", "loc": "cols"})
            elif "MaybeUninit<T>" in t:
                ev.append({"kind": "na_write", "loc": "slot"})
    return ev


class ShapeError(Exception):
    pass


def expect(name, ev, shape):
    """shape: list of (kind, loc, op) that must appear as a subsequence, and no OTHER atomics on
    bucket/active/counter may appear"""
    got = [(e["kind"], e["loc"], e.get("op")) for e in ev if e["kind"] == "atomic" or e["loc"] in ("active", "slot", "cols")]
    it = iter(got)
    for s in shape:
        for g in it:
            if g == s:
                break
        else:
            raise ShapeError("%s: expected %s in order, extracted %s" % (name, shape, got))
    extra = [g for g in got if g[0] == "atomic" and g not in shape]
    if extra:
        raise ShapeError("%s: unexpected atomic operations %s" % (name, extra))


def extract(mir):
    fns = functions(mir)

    def one(method, pick=None):
        c = find_fn(fns, None, method)
        if pick:
            c = [n for n in c if pick(fns[n])]
        if len(c) != 1:
            raise ShapeError("cannot identify boxcar function %s uniquely (%d candidates)" % (method, len(c)))
        return events_of(fns[c[0]])

    ex = {}
    ex["get"] = one("get", lambda b: "Option<Item" in b.split("\n")[0])
    ex["get_unchecked"] = one("get_unchecked")
    ex["push"] = one("push")
    ex["extend"] = one("extend")
    ex["get_or_alloc"] = one("get_or_alloc")
    ex["count"] = one("count")
    ex["iter_next"] = one("next", lambda b: "boxcar::Iter" in b.split("\n")[0])
    ex["alloc"] = one("alloc")
    expect("get", ex["get"], [("atomic", "bucket", "load"), ("atomic", "active", "load")])
    expect("get_unchecked", ex["get_unchecked"], [("atomic", "bucket", "load"), ("atomic", "active", "load")])
    expect("iter_next", ex["iter_next"], [("atomic", "bucket", "load"), ("atomic", "active", "load")])
    expect("get_or_alloc", ex["get_or_alloc"], [("atomic", "bucket", "compare_exchange")])
    expect("alloc", ex["alloc"], [("na_write", "active", None)])
    expect("push", ex["push"], [("atomic", "counter", "fetch_add"), ("atomic", "bucket", "load"), ("na_write", "cols", None),
                                ("na_write", "slot", None), ("atomic", "active", "store")])
    expect("extend", ex["extend"], [("atomic", "counter", "fetch_add"), ("atomic", "bucket", "load"), ("na_write", "cols", None),
                                    ("na_write", "slot", None), ("atomic", "active", "store")])
    expect("count", ex["count"], [("atomic", "counter", "load")])
    return ex


def ordering(ev, loc, op, which=0):
    for e in ev:
        if e["kind"] == "atomic" and e["loc"] == loc and e["op"] == op:
            return e["orderings"][which]
    raise ShapeError("no %s on %s" % (op, loc))


# ---------------------------------------------------------------------------------------------
# scenarios -> SMT-LIB
# ---------------------------------------------------------------------------------------------
def scenario_smt(events, po, rf_choices, races, extra_constraints=()):
    """events: {id: dict(thread, kind 'W'|'R'|'RMW', atomic bool, loc, rel bool, acq bool)}
    po: list of (a, b); rf_choices: {read id: [write ids]} ; races: list of (a, b) candidate pairs.
    Returns SMT-LIB text asking: is there a consistent execution with a race on one of `races`?"""
    ids = list(events)
    L = ["(set-logic ALL)"]
    for r, ws in rf_choices.items():
        for w in ws:
            L.append("(declare-const rf_%s_%s Bool)" % (w, r))
        # exactly one source
        L.append("(assert (or %s))" % " ".join("rf_%s_%s" % (w, r) for w in ws) if len(ws) > 1 else "(assert rf_%s_%s)" % (ws[0], r))
        for i in range(len(ws)):
            for j in range(i + 1, len(ws)):
                L.append("(assert (not (and rf_%s_%s rf_%s_%s)))" % (ws[i], r, ws[j], r))
    # hb as the least fixpoint, encoded by levels (graph is tiny): hb_k
    n = len(ids)
    def sw(a, b):
        ea, eb = events[a], events[b]
        if b in rf_choices and a in rf_choices[b] and ea["atomic"] and eb["atomic"] and ea.get("rel") and eb.get("acq"):
            return "rf_%s_%s" % (a, b)
        return "false"
    for k in range(n + 1):
        for a in ids:
            for b in ids:
                L.append("(declare-const hb%d_%s_%s Bool)" % (k, a, b))
    for a in ids:
        for b in ids:
            base = "true" if (a, b) in po else sw(a, b)
            L.append("(assert (= hb0_%s_%s %s))" % (a, b, base))
    for k in range(1, n + 1):
        for a in ids:
            for b in ids:
                steps = " ".join("(and hb%d_%s_%s hb%d_%s_%s)" % (k - 1, a, c, k - 1, c, b) for c in ids)
                L.append("(assert (= hb%d_%s_%s (or hb%d_%s_%s %s)))" % (k, a, b, k - 1, a, b, steps))
    H = lambda a, b: "hb%d_%s_%s" % (n, a, b)
    # coherence (what matters here): a read may not read from a write that happens AFTER it, and
    # may not read from a write hb-before another write to the same location that is hb-before the read
    for r, ws in rf_choices.items():
        for w in ws:
            L.append("(assert (=> rf_%s_%s (not %s)))" % (w, r, H(r, w)))
            for w2 in ws:
                if w2 != w:
                    L.append("(assert (=> rf_%s_%s (not (and %s %s))))" % (w, r, H(w, w2), H(w2, r)))
    for c in extra_constraints:
        L.append("(assert %s)" % c)
    racy = " ".join("(and (not %s) (not %s))" % (H(a, b), H(b, a)) for a, b in races)
    L.append("(assert (or %s))" % racy)
    L.append("(check-sat)")
    return "\n".join(L) + "\n"


def solve(smt, solver=("z3", "-in")):
    t0 = time.time()
    p = subprocess.run(list(solver), input=smt, capture_output=True, text=True, timeout=300)
    out = p.stdout
    if "(error" in out:
        return "error", out, time.time() - t0
    first = out.strip().splitlines()[0] if out.strip() else "?"
    return first, out, time.time() - t0


def scenarios(ex):
    """Publication scenarios of the item vector. Every ordering below comes from the extraction."""
    o_cas = ordering(ex["get_or_alloc"], "bucket", "compare_exchange", 0)
    o_push_bucket = ordering(ex["push"], "bucket", "load")
    o_store = ordering(ex["push"], "active", "store")
    o_store_ext = ordering(ex["extend"], "active", "store")
    out = []
    for reader, evs in (("get", ex["get"]), ("get_unchecked", ex["get_unchecked"]), ("Iter::next", ex["iter_next"])):
        o_rb = ordering(evs, "bucket", "load")
        o_ra = ordering(evs, "active", "load")
        for writer, o_st in (("push", o_store), ("extend", o_store_ext)):
            # S1: the writer itself allocates the bucket, a reader looks the index up
            #   W: init(active) [na] ; cas(bucket) ; cols,slot [na] ; store(active)
            #   R: load(bucket) ; load(active) ; read(slot) [na, only if it saw true]
            ev = {
                "i": dict(thread=0, kind="W", atomic=False, loc="active"),
                "c": dict(thread=0, kind="RMW", atomic=True, loc="bucket", rel=is_rel(o_cas), acq=False),
                "w": dict(thread=0, kind="W", atomic=False, loc="slot"),
                "s": dict(thread=0, kind="W", atomic=True, loc="active", rel=is_rel(o_st)),
                "b": dict(thread=1, kind="R", atomic=True, loc="bucket", acq=is_acq(o_rb)),
                "a": dict(thread=1, kind="R", atomic=True, loc="active", acq=is_acq(o_ra)),
                "r": dict(thread=1, kind="R", atomic=False, loc="slot"),
            }
            po = [("i", "c"), ("c", "w"), ("w", "s"), ("i", "w"), ("i", "s"), ("c", "s"), ("b", "a"), ("a", "r"), ("b", "r")]
            rf = {"b": ["c"], "a": ["i", "s"]}   # the reader reached the entry, so it saw the bucket pointer
            # race 1: the flag's non-atomic initialisation vs the reader's load of the flag
            out.append(dict(name="%s / %s: flag initialisation vs flag load (writer allocates the bucket)" % (writer, reader),
                            orderings=dict(cas=o_cas, store=o_st, reader_bucket=o_rb, reader_active=o_ra),
                            smt=scenario_smt(ev, po, rf, [("i", "a")]), reader=reader, writer=writer, kind="flag-init"))
            # race 2: slot/column write vs slot read, the reader having seen active == true
            out.append(dict(name="%s / %s: item write vs item read after the flag was seen set" % (writer, reader),
                            orderings=dict(cas=o_cas, store=o_st, reader_bucket=o_rb, reader_active=o_ra),
                            smt=scenario_smt(ev, po, rf, [("w", "r")], extra_constraints=["rf_s_a"]), reader=reader, writer=writer, kind="item"))
    # S2: a second writer finds the bucket another writer installed and writes its slot there
    ev = {
        "i": dict(thread=0, kind="W", atomic=False, loc="active2"),
        "c": dict(thread=0, kind="RMW", atomic=True, loc="bucket", rel=is_rel(o_cas), acq=False),
        "b": dict(thread=1, kind="R", atomic=True, loc="bucket", acq=is_acq(o_push_bucket)),
        "w": dict(thread=1, kind="W", atomic=False, loc="slot2"),
        "s": dict(thread=1, kind="W", atomic=True, loc="active2", rel=is_rel(o_store)),
    }
    po = [("i", "c"), ("b", "w"), ("w", "s"), ("b", "s")]
    out.append(dict(name="push / push: flag initialisation by the allocating writer vs flag store by a writer that found the bucket",
                    orderings=dict(cas=o_cas, push_bucket=o_push_bucket, store=o_store),
                    smt=scenario_smt(ev, po, {"b": ["c"]}, [("i", "s")]), reader=None, writer="push", kind="flag-init-writer"))
    return out
