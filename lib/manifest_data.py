SETUP = "python3 /verif/lib/setup.py"
HOOKS = {
    "guard": "--cfg nucleo_verif (small scratch/bucket/sort geometry additionally under --cfg nucleo_verif_small)",
    "enable": "RUSTFLAGS='--cfg nucleo_verif [--cfg nucleo_verif_small]' NUCLEO_VERIF_DIR=/verif/harness NUCLEO_VERIF_GEN=<scratch>/gen on a scratch copy of /repo's working tree (made by ./check)",
    "baseline_off_cmd": "cd /repo && cargo test --workspace --no-fail-fast --offline",
    "source_commits": [],
    "add_only": True,
}
ENGINES = [
    {"name": "K-matcher", "path": "/verif/harness/matcher", "serves_properties": ["C01", "C02", "C03", "C04", "C10"],
     "kind_free_text": "Kani 0.68 / CBMC 6.11 bounded model checking of the compiled nucleo-matcher crate; in-crate harnesses (included through a guarded hook) with symbolic characters, configuration and scratch pre-state, concrete lengths/windows enumerated by the driver; oracle written from the statements; counterexamples replayed natively through the public API"},
]
NOTES = "Every claim is bounded: 'for all values of the symbolic inputs within the stated bounds'. exit 2 = inconclusive (time-out, OOM, unwinding bound too small, vacuous harness, counterexample that does not replay natively); it is never reported as success or as a violation."

_M_NOTE = ("Trusted: Kani/CBMC/CaDiCaL; the memchr shim (documented contract; native replay uses the real crate); the oracle in "
           "/verif/harness/matcher/spec.rs; the hand composition of the lemma chain (prefilter window facts -> window harnesses). "
           "Bounded: lengths per tier are listed in the evidence; scratch geometry shrunk under the guard.")
CHECKS = {
}
NOT_APPLICABLE = {p: "check not built yet in this session (work in progress; see DESIGN.md)" for p in
                  ["C%02d" % i for i in range(1, 21)]}
