"""Instance generators (harness lists per tier) for the K-matcher engine."""


class Inst:
    def __init__(self, name, unwind, expr, props, bounds, family):
        self.name = name
        self.unwind = unwind
        self.expr = expr
        self.props = props      # property ids whose assertions live in this harness
        self.bounds = bounds    # dict, reported in the evidence
        self.family = family    # gen file the instance is written to


def fuzzy_instances(tier):
    out = []
    A = ["C01", "C02", "C03", "C04", "C10"]
    # P: ASCII prefilter
    sizes = [(3, 2), (4, 2), (4, 3), (5, 3)] if tier == "quick" else \
            [(3, 2), (4, 2), (4, 3), (5, 2), (5, 3), (6, 3), (6, 4), (7, 4), (8, 4)]
    for h, n in sizes:
        out.append(Inst("prefilter_ascii_h%d_n%d" % (h, n), h + 2,
                        "prefilter_ascii_lemma::<%d, %d>()" % (h, n), ["C01", "C10"],
                        {"H": h, "N": n, "repr": "ascii x ascii"}, "matcher_fuzzy"))
    # O: optimal on concrete windows
    if tier == "quick":
        wins = [(3, 2, 0, 3), (4, 2, 0, 4), (4, 2, 1, 4), (4, 2, 0, 3), (5, 3, 0, 5), (5, 3, 1, 5), (5, 2, 0, 5)]
    else:
        wins = []
        for h in range(3, 8):
            for n in range(2, 4 if h < 7 else 4):
                if n >= h:
                    continue
                for s in range(0, h - n):
                    for e in range(s + n + 1, h + 1):
                        wins.append((h, n, s, e))
    for h, n, s, e in wins:
        p = 1 if (h + n + s + e) % 2 == 0 else 0
        out.append(Inst("optimal_ascii_h%d_n%d_w%d_%d" % (h, n, s, e), h + 2,
                        "optimal_ascii::<%d, %d, %d>(%d, %d)" % (h, n, p, s, e), A,
                        {"H": h, "N": n, "window": [s, e], "prior_indices": p, "repr": "ascii x ascii"},
                        "matcher_fuzzy"))
    # G: greedy on concrete (start, greedy_end)
    if tier == "quick":
        gw = [(4, 2, 0, 3), (4, 2, 1, 4), (5, 3, 0, 5), (5, 3, 1, 4)]
    else:
        gw = []
        for h in range(3, 9):
            for n in range(2, 5):
                if n >= h:
                    continue
                for s in range(0, h - n + 1):
                    for g in range(s + n, h + 1):
                        if g - s == n:
                            continue  # contiguous: dispatched to calculate_score (S lemma)
                        gw.append((h, n, s, g))
    for h, n, s, g in gw:
        p = 1 if (h + n + s + g) % 2 == 0 else 0
        out.append(Inst("greedy_ascii_h%d_n%d_s%d_g%d" % (h, n, s, g), h + 2,
                        "greedy_ascii::<%d, %d, %d>(%d, %d)" % (h, n, p, s, g), ["C01", "C02", "C03", "C10"],
                        {"H": h, "N": n, "start": s, "greedy_end": g, "prior_indices": p, "repr": "ascii x ascii"},
                        "matcher_fuzzy"))
    # S: contiguous window
    sw = [(4, 2, 1), (5, 3, 0)] if tier == "quick" else \
         [(h, n, s) for h in range(3, 9) for n in range(2, 5) if n < h for s in range(0, h - n + 1)]
    for h, n, s in sw:
        p = 1 if (h + n + s) % 2 == 0 else 0
        out.append(Inst("score_window_ascii_h%d_n%d_s%d" % (h, n, s), h + 2,
                        "score_exact_window_ascii::<%d, %d, %d>(%d)" % (h, n, p, s), ["C02", "C03", "C10"],
                        {"H": h, "N": n, "start": s, "prior_indices": p, "repr": "ascii x ascii"},
                        "matcher_fuzzy"))
    return out


FAMILIES = {
    "matcher_fuzzy": fuzzy_instances,
}


def all_instances(tier):
    out = []
    for f in FAMILIES.values():
        out += f(tier)
    return out


def gen_text(insts):
    lines = ["harnesses! {"]
    for i in insts:
        lines.append("    %s [%d] => %s;" % (i.name, i.unwind, i.expr))
    lines.append("}")
    return "\n".join(lines) + "\n"
