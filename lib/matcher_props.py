"""Instance generators (harness lists per tier) for the K-matcher engine."""


import os


def thin(lst, k):
    """At most k evenly spaced elements of lst; VERIF_SEED rotates which ones (so that different
    seeds of the thorough tier cover different shapes of an expensive family)."""
    if len(lst) <= k:
        return lst
    seed = int(os.environ.get("VERIF_SEED", "0"))
    stride = len(lst) / float(k)
    off = seed % max(1, int(stride))
    out = []
    for i in range(k):
        j = int(i * stride) + off
        out.append(lst[min(j, len(lst) - 1)])
    return out


class Inst:
    def __init__(self, name, unwind, expr, props, bounds, family):
        self.name = name
        self.unwind = unwind
        self.expr = expr
        self.props = props      # property ids whose assertions live in this harness
        self.bounds = bounds    # dict, reported in the evidence
        self.family = family    # gen file the instance is written to


def _pth(*k):
    return "true" if sum(k) % 2 else "false"


def fuzzy_instances(tier):
    out = []
    A = ["C01", "C02", "C03", "C04", "C10"]
    U = lambda h: max(h + 2, 7)   # 5 delimiters -> core memchr loop needs 6; slices of H need H+1
    # P: ASCII prefilter (bonus profile irrelevant: prefilter reads only ignore_case)
    sizes = [(3, 2), (4, 2), (4, 3), (5, 3)] if tier == "quick" else \
            [(3, 2), (4, 2), (4, 3), (5, 2), (5, 3), (5, 4), (6, 2), (6, 3), (6, 4), (7, 3), (7, 4), (8, 4)]
    for h, n in sizes:
        out.append(Inst("prefilter_ascii_h%d_n%d" % (h, n), U(h),
                        "prefilter_ascii_lemma::<%d, %d>()" % (h, n), ["C01", "C10"],
                        {"H": h, "N": n, "repr": "ascii x ascii"}, "matcher_fuzzy"))
    # O: optimal on concrete windows
    if tier == "quick":
        wins = [(3, 2, 0, 3), (4, 2, 0, 4), (4, 2, 1, 4), (4, 2, 0, 3), (5, 3, 0, 5), (5, 3, 1, 5), (5, 2, 0, 5), (5, 2, 2, 5)]
    else:
        wins = []
        for h in range(3, 7):
            for n in range(2, 4):
                if n >= h:
                    continue
                for s in range(0, h - n):
                    for e in range(s + n + 1, h + 1):
                        wins.append((h, n, s, e))
        # the matrix matcher is the expensive family (2-6 min per window): 24 windows per run, rotated by
        # VERIF_SEED, plus a few larger shapes (needle of 4, haystack of 7)
        wins = thin(wins, 24) + [(7, 3, 0, 7), (6, 4, 0, 6), (7, 4, 0, 7), (7, 4, 1, 7)]
    for k, (h, n, s, e) in enumerate(wins):
        p = 1 if (h + n + s + e) % 2 == 0 else 0
        paths = [_pth(k)] if tier == "quick" else ["false", "true"]
        for pa in paths:
            out.append(Inst("optimal_ascii_h%d_n%d_w%d_%d_%s" % (h, n, s, e, "path" if pa == "true" else "dflt"), U(h),
                            "optimal_ascii::<%d, %d, %d>(%d, %d, Some(%s))" % (h, n, p, s, e, pa), A,
                            {"H": h, "N": n, "window": [s, e], "prior_indices": p, "repr": "ascii x ascii",
                             "bonus_profile": "match_paths" if pa == "true" else "default"}, "matcher_fuzzy"))
    # G: greedy (score-only) on concrete (start, greedy_end)
    if tier == "quick":
        gw = [(4, 2, 0, 3), (4, 2, 1, 4), (5, 3, 0, 5), (5, 3, 1, 5), (5, 2, 0, 4)]
    else:
        gw = []
        for h in range(3, 8):
            for n in range(2, 5):
                if n >= h:
                    continue
                for s in range(0, h - n + 1):
                    for g in range(s + n + 1, h + 1):
                        gw.append((h, n, s, g))
    for k, (h, n, s, g) in enumerate(gw):
        pa = _pth(k)
        out.append(Inst("greedy_ascii_h%d_n%d_s%d_g%d" % (h, n, s, g), U(h),
                        "greedy_ascii::<%d, %d>(%d, %d, Some(%s))" % (h, n, s, g, pa), ["C01", "C03", "C10"],
                        {"H": h, "N": n, "start": s, "greedy_end": g, "repr": "ascii x ascii",
                         "bonus_profile": "match_paths" if pa == "true" else "default"}, "matcher_fuzzy"))
    # long gaps (score floored at zero)
    for k, (h, st) in enumerate([] if tier == "quick" else [(20, 0), (20, 1)]):
        pa = _pth(k)
        out.append(Inst("optimal_gap_ascii_h%d_s%d" % (h, st), h + 2, "optimal_gap_ascii::<%d, %d>(%d, Some(%s))" % (h, k % 2, st, pa), A,
                        {"H": h, "N": 2, "shape": "2 symbolic chars + %d copies of one symbolic filler + 2 symbolic chars" % (h - 4), "window": [st, h],
                         "bonus_profile": "match_paths" if pa == "true" else "default"}, "matcher_fuzzy"))
    # scratch layout under the REAL constants
    for nm, asc in (("layout_real_ascii", "true"), ("layout_real_char", "false")):
        i = Inst(nm, 8, "layout_real(%s)" % asc, ["C10"], {"haystack_len": "symbolic, up to 70 000", "needle_len": "symbolic", "constants": "real (100 KiB cells, 2048, 65535)"}, "matcher_fuzzy")
        i.small = False
        out.append(i)
    # S: the scoring walk on concrete windows (with and without gaps)
    if tier == "quick":
        sw = [(4, 2, 1, 3), (4, 2, 0, 4), (5, 3, 0, 3), (5, 3, 1, 5), (5, 2, 0, 5)]
    else:
        sw = [(h, n, s, e) for h in range(3, 8) for n in range(2, 5) if n < h
              for s in range(0, h - n + 1) for e in range(s + n, h + 1)]
    for k, (h, n, s, e) in enumerate(sw):
        p = 1 if (h + n + s + e) % 2 == 0 else 0
        pa = _pth(k, 1)
        out.append(Inst("score_window_ascii_h%d_n%d_w%d_%d" % (h, n, s, e), U(h),
                        "score_window_ascii::<%d, %d, %d>(%d, %d, Some(%s))" % (h, n, p, s, e, pa), ["C02", "C03", "C10"],
                        {"H": h, "N": n, "window": [s, e], "prior_indices": p, "repr": "ascii x ascii",
                         "bonus_profile": "match_paths" if pa == "true" else "default"}, "matcher_fuzzy"))
    return out


def exact_instances(tier):
    out = []
    U = lambda h: max(h + 2, 7)
    kinds = [("Substring", "substring"), ("Prefix", "prefix"), ("Postfix", "postfix"), ("Exact", "exact")]
    if tier == "quick":
        sizes = {"substring": [(3, 1), (4, 2), (4, 3), (5, 3)], "prefix": [(4, 2), (3, 3)], "postfix": [(4, 2), (5, 3)], "exact": [(4, 2), (3, 3), (4, 3)]}
        f1 = [(3, 1), (5, 1)]
    else:
        # (one-character needles take their own arm in every contiguous kind)
        allsz = [(h, n) for h in range(2, 7) for n in range(1, 4) if n <= h and (n > 1 or h <= 4)]
        sizes = {k: allsz for _, k in kinds}
        f1 = [(h, 1) for h in range(2, 11)]
    k = 0
    for K, kn in kinds:
        for h, n in sizes[kn]:
            paths = [_pth(k)] if tier == "quick" else ["false", "true"]
            k += 1
            # the substring matcher's strategy depends on ignore_case: fixed per instance
            ics = ["Some(true)", "Some(false)"] if kn == "substring" else ["None"]
            for pa in paths:
                for ic in ics:
                    p = (h + n) % 2
                    nm = "%s_ascii_h%d_n%d_%s%s" % (kn, h, n, "path" if pa == "true" else "dflt",
                                                     {"Some(true)": "_ic", "Some(false)": "_cs", "None": ""}[ic])
                    out.append(Inst(nm, U(h),
                                    "contiguous_ascii::<%d, %d, %d>(Kind::%s, Some(%s), %s)" % (h, n, p, K, pa, ic),
                                    ["C05", "C02", "C03", "C10"],
                                    {"H": h, "N": n, "kind": kn, "prior_indices": p, "repr": "ascii x ascii",
                                     "ignore_case": {"Some(true)": True, "Some(false)": False, "None": "symbolic"}[ic],
                                     "bonus_profile": "match_paths" if pa == "true" else "default"}, "matcher_exact"))
    # long needles / far starts: content = one symbolic byte repeated, length concrete
    # (symbolic execution of 4200 loop iterations takes ~15 min: thorough tier only)
    for kn, K in () if tier == "quick" else (("exact", "Exact"), ("prefix", "Prefix"), ("fuzzy", "Fuzzy1")):
        LN = 2600 if tier == "quick" else 4200
        o = Inst("long_needle_%s_%d" % (kn, LN), LN + 3, "long_needle::<%d>(Kind::%s)" % (LN, K), ["C03", "C10", "C05"],
                 {"L": LN, "content": "'a' repeated (concrete)", "kind": kn, "config": "symbolic"}, "matcher_exact")
        out.append(o)
    out.append(Inst("prefix_penalty_starts_h", 8, "prefix_penalty_all_starts()", ["C10", "C03"],
                    {"haystack": "22 400 symbolic bytes", "start": "symbolic (every position)", "needle": "1 char", "prefer_prefix": True,
                     "entry": "Matcher::calculate_score called directly (window of one character)"}, "matcher_exact"))
    for h, n in f1:
        for pa in ["false", "true"]:
            out.append(Inst("fuzzy1_ascii_h%d_%s" % (h, "path" if pa == "true" else "dflt"), U(h),
                            "contiguous_ascii::<%d, 1, 1>(Kind::Fuzzy1, Some(%s), None)" % (h, pa),
                            ["C04", "C01", "C02", "C03", "C10"],
                            {"H": h, "N": 1, "kind": "fuzzy, one-character needle", "repr": "ascii x ascii",
                             "bonus_profile": "match_paths" if pa == "true" else "default"}, "matcher_exact"))
    return out


UNI_RULES = [(r"skip_search", 80)]


def uni_instances(tier):
    out = []
    U = lambda h: max(h + 2, 7)
    A = ["C01", "C02", "C03", "C04", "C10"]
    def add(name, h, expr, props, bounds):
        bounds = dict(bounds); bounds["repr"] = bounds.get("repr", "code points"); bounds["alphabet"] = "Latin-1 (U+0000..U+00FF without U+00B5); leaf character maps = models proved equal to the real ones on that domain"
        out.append(Inst(name, U(h), expr, props, bounds, "matcher_uni"))
    q = tier == "quick"
    # P'
    for h, n, na in ([(4, 2, False), (4, 2, True)] if q else [(h, n, na) for h in range(3, 7) for n in range(2, 4) if n < h for na in (False, True)]):
        add("prefilter_uni_h%d_n%d_%s" % (h, n, "an" if na else "un"), h, "prefilter_uni::<%d, %d>(%s)" % (h, n, str(na).lower()),
            ["C01", "C10"], {"H": h, "N": n, "needle": "ascii bytes" if na else "code points"})
    # O'
    wins = [(4, 2, 0, 4, False), (4, 2, 1, 4, True), (5, 3, 0, 5, False)] if q else \
           thin([(h, n, s, e, na) for h in range(3, 6) for n in range(2, 4) if n < h for s in range(0, h - n) for e in range(s + n + 1, h + 1) for na in (False, True)], 12)
    for k, (h, n, s, e, na) in enumerate(wins):
        pa = _pth(k)
        add("optimal_uni_h%d_n%d_w%d_%d_%s" % (h, n, s, e, "an" if na else "un"), h,
            "optimal_uni::<%d, %d, %d>(%d, %d, %s, Some(%s))" % (h, n, k % 2, s, e, str(na).lower(), pa), A,
            {"H": h, "N": n, "window": [s, e], "needle": "ascii bytes" if na else "code points", "bonus_profile": "match_paths" if pa == "true" else "default"})
    # G'
    gw = [(4, 2, 0, False), (5, 3, 1, True)] if q else [(h, n, s, na) for h in range(3, 8) for n in range(2, 4) if n < h for s in range(0, h - n + 1) for na in (False, True)]
    for k, (h, n, s, na) in enumerate(gw):
        pa = _pth(k)
        add("greedy_uni_h%d_n%d_s%d_%s" % (h, n, s, "an" if na else "un"), h,
            "greedy_uni::<%d, %d>(%d, %s, Some(%s))" % (h, n, s, str(na).lower(), pa), ["C01", "C03", "C10"],
            {"H": h, "N": n, "start": s, "needle": "ascii bytes" if na else "code points", "bonus_profile": "match_paths" if pa == "true" else "default"})
    # contiguous kinds + one-character arm
    kinds = [("Substring", "substring"), ("Prefix", "prefix"), ("Postfix", "postfix"), ("Exact", "exact")]
    cs = [("Substring", "substring", 3, 1, False), ("Substring", "substring", 3, 1, True), ("Substring", "substring", 4, 2, False), ("Substring", "substring", 4, 2, True), ("Prefix", "prefix", 4, 2, False), ("Postfix", "postfix", 4, 2, True), ("Exact", "exact", 3, 3, False)] if q else \
         [(K, kn, h, n, na) for K, kn in kinds for h in range(2, 7) for n in range(1, 4) if n <= h and (n > 1 or h <= 4) for na in (False, True)]
    for k, (K, kn, h, n, na) in enumerate(cs):
        pa = _pth(k)
        add("%s_uni_h%d_n%d_%s" % (kn, h, n, "an" if na else "un"), h,
            "contiguous_uni::<%d, %d, %d>(Kind::%s, %s, Some(%s))" % (h, n, k % 2, K, str(na).lower(), pa), ["C05", "C02", "C03", "C10"],
            {"H": h, "N": n, "kind": kn, "needle": "ascii bytes" if na else "code points", "bonus_profile": "match_paths" if pa == "true" else "default"})
    for h, na in ([(3, False), (4, True)] if q else [(h, na) for h in range(2, 8) for na in (False, True)]):
        for pa in ("false", "true"):
            add("fuzzy1_uni_h%d_%s_%s" % (h, "an" if na else "un", "path" if pa == "true" else "dflt"), h,
                "contiguous_uni::<%d, 1, 1>(Kind::Fuzzy1, %s, Some(%s))" % (h, str(na).lower(), pa), ["C04", "C01", "C02", "C03", "C10"],
                {"H": h, "N": 1, "kind": "fuzzy, one-character needle", "needle": "ascii bytes" if na else "code points", "bonus_profile": "match_paths" if pa == "true" else "default"})
    # representation independence at the public API (ASCII text held either way)
    # (the fuzzy entry points run end to end here - prefilter, symbolic window, DP - which is only
    # affordable for the very smallest sizes)
    # (calibrated: greedy / substring at H=3,N=2 through all four representation pairs need > 11 GB)
    ri = [("Fuzzy1", 2, 1, False), ("Exact", 2, 2, False)] if q else \
         [("Fuzzy1", 2, 1, False), ("Fuzzy1", 3, 1, False), ("Exact", 2, 2, False), ("Exact", 3, 2, False), ("Prefix", 3, 2, False), ("Postfix", 3, 2, False)]
    for K, h, n, g in ri:
        nm = "repr_%s_h%d_n%d" % ("greedy" if g else ("fuzzy" if K == "Fuzzy1" else K.lower()), h, n)
        o = Inst(nm, max(h + 2, 7), "repr_independence::<%d, %d>(Kind::%s, %s)" % (h, n, K, str(g).lower()), ["C01", "C03", "C10"],
                 {"H": h, "N": n, "entry": nm, "repr": "ASCII text held as bytes / code points on either side (4 combinations)"}, "matcher_uni")
        out.append(o)
    m = _with_rules(Inst("latin1_model_agrees_h", 13, None, ["C01", "C02", "C03", "C04", "C05", "C10"],
                         {"domain": "every scalar below U+0100 except U+00B5", "purpose": "stub models == real leaf functions"}, None), [(r"skip_search", 12)])
    out.append(m)
    return out


def pattern_instances(tier):
    out = []
    BS = chr(92)
    prefixes = ["", "!", BS + "!", "^", "'", BS + "^", BS + "'", "!^", "!'"]
    suffixes = ["", "$", BS + "$"]
    bodies = ["ab", "a" + BS + " b"] if tier == "quick" else ["ab", "a" + BS + " b", "a", "ab" + BS, "a" + BS + "b"]
    k = 0
    for pre in prefixes:
        for suf in suffixes:
            for body in bodies:
                k += 1
                if tier == "quick" and k % 5 != 0:
                    continue
                raw = pre + body + suf
                def lit(c):
                    if c == BS:
                        return "b'" + BS + BS + "'"
                    if c == "'":
                        return "b'" + BS + "''"
                    return "b'%s'" % c
                arr = ", ".join(lit(c) for c in raw)
                out.append(Inst("atom_shape_%03d" % k, 8, "atom_parse_shape::<%d>([%s])" % (len(raw), arr), ["C14"],
                                {"text_template": raw, "letters": "symbolic case", "case_matching": "symbolic", "normalization": "symbolic"}, "matcher_pattern"))
    return out


def compose_instances(tier):
    out = []
    # (match_list_a1 / _a2 were calibrated and dropped: > 25 min each)
    names = [("compose_a0", 0), ("compose_a1", 1), ("compose_a2", 2)] if tier == "quick" else \
            [("compose_a0", 0), ("compose_a1", 1), ("compose_a2", 2), ("compose_a3", 3)]
    for n, a in names:
        i = Inst(n, 10, None, ["C15"], {"atoms": a, "kinds": "symbolic", "polarity": "symbolic", "per-atom outcomes and scores": "symbolic (stub table)",
                                        "inputs": 3 if n.startswith("match_list") else 1}, None)
        i.cbmc_extra = ["--max-field-sensitivity-array-size", "512"]
        out.append(i)
    return out


def utf32_instances(tier):
    out = []
    # conversion of text that may contain CR LF runs unicode-segmentation's GraphemeCursor symbolically
    # (binary searches in its category tables): > 13 min already for 2 bytes, so it is thorough-only
    names = [("decision_l4", 4), ("decision_l6", 6), ("views_ascii_l3", 3), ("views_unicode_l3", 3), ("views_unicode_l4", 4)] if tier == "quick" else \
            [("decision_l4", 4), ("decision_l6", 6), ("convert_crlf_tail_l0", 2), ("convert_crlf_tail_l1", 3), ("convert_crlf_tail_l2", 4), ("convert_ascii_l2", 2), ("convert_ascii_l3", 3), ("convert_ascii_l4", 4), ("views_ascii_l3", 3), ("views_unicode_l3", 3), ("views_unicode_l4", 4)]
    for n, l in names:
        # slice equality on [char] is a byte-wise memcmp: 4 * L + 1 iterations
        out.append(Inst(n, 4 * l + 3, None, ["C17"], {"L": l, "content": "symbolic ASCII bytes (all CR/LF arrangements)" if "ascii" in n else "symbolic scalars", "ranges": "symbolic valid ranges"}, None))
    return out


def dispatch_instances(tier):
    out = []
    combos = []
    for uh in (False, True):
        for un in (False, True):
            for gr in (False, True):
                for ix in (False, True):
                    combos.append((uh, un, gr, ix))
    sizes = [(4, 2), (3, 1), (3, 3)] if tier == "quick" else [(4, 2), (5, 3), (3, 1), (4, 1), (3, 3), (2, 3), (3, 0)]
    k = 0
    for (h, n) in sizes:
        for (uh, un, gr, ix) in combos:
            k += 1
            if tier == "quick" and (h, n) != (4, 2) and k % 4 != 0:
                continue
            nm = "dispatch_h%d_n%d_%s%s_%s_%s" % (h, n, "u" if uh else "a", "u" if un else "a", "greedy" if gr else "optimal", "idx" if ix else "score")
            out.append(Inst(nm, 8, "dispatch::<%d, %d>(%s, %s, %s, %s)" % (h, n, str(uh).lower(), str(un).lower(), str(gr).lower(), str(ix).lower()),
                            ["C01", "C02"], {"H": h, "N": n, "haystack": "code points" if uh else "bytes", "needle": "code points" if un else "bytes",
                                             "entry": ("fuzzy_indices" if ix else "fuzzy_match") + ("_greedy" if gr else ""),
                                             "callees": "recording stubs with symbolic window and result"}, "matcher_dispatch"))
    return out


def chars_instances(tier):
    B = {"domain": "one symbolic char over all 1,112,064 scalar values", "config": "symbolic"}
    return [
        Inst("chars_fold_reference", 16, None, ["C16"], B, None),
        Inst("chars_normalize_reference", 16, None, ["C16"], B, None),
        Inst("chars_coherence_norm", 13, None, ["C16"], dict(B, std_unicode_predicates="uninterpreted functions (exact on ASCII)"), None),
        Inst("chars_coherence_compose", 13, None, ["C16"], B, None),
        Inst("chars_coherence_class", 13, None, ["C16"], dict(B, std_unicode_predicates="uninterpreted functions (exact on ASCII)"), None),
        _with_rules(Inst("chars_coherence_ascii", 13, None, ["C16"], {"domain": "all 128 ASCII values", "config": "symbolic"}, None), [(r"skip_search", 20)]),
    ]


def _with_rules(inst, rules):
    inst.unwind_rules = rules
    return inst


FAMILIES = {
    "matcher_fuzzy": fuzzy_instances,
    "chars": chars_instances,
    "matcher_exact": exact_instances,
    "matcher_uni": uni_instances,
    "matcher_pattern": pattern_instances,
    "compose": compose_instances,
    "utf32": utf32_instances,
    "matcher_dispatch": dispatch_instances,
    "matcher_repr": lambda tier: [],
}


def write_gen(sc, tier, extra=(), small=True):
    """(Re)generates every instance list and reference table from the current tree. `small`: which
    geometry this compile pass uses (instances are compiled only in the pass they ask for)."""
    import ucd_ref
    fams = {f: [] for f in FAMILIES if f.startswith("matcher_")}
    for i in list(all_instances(tier)) + list(extra):
        if i.family and getattr(i, "small", True) == small:
            fams.setdefault(i.family, [])
            if not any(j.name == i.name for j in fams[i.family]):
                fams[i.family].append(i)
    for fam, insts in fams.items():
        sc.write_gen(fam + ".rs", gen_text(insts, {"matcher_uni": "harnesses_latin1", "matcher_dispatch": "harnesses_dispatch", "matcher_pattern": "harnesses_pattern"}.get(fam, "harnesses")))
    src = open(sc.repo + "/matcher/src/chars/normalize.rs").read()
    txt, meta = ucd_ref.rust_tables(src)
    sc.write_gen("chars_ref.rs", txt)
    sc.write_gen("latin1_model.rs", ucd_ref.latin1_model(src))
    return meta


def all_instances(tier):
    out = []
    for f in FAMILIES.values():
        out += f(tier)
    return out


def gen_text(insts, macro="harnesses"):
    lines = [macro + "! {"]
    for i in insts:
        lines.append("    %s [%d] => %s;" % (i.name, i.unwind, i.expr))
    lines.append("}")
    return "\n".join(lines) + "\n"
