#!/usr/bin/env python3
"""Run the registered quick check(s) against a seeded change (applied in a scratch worktree that the
check is pointed at through NUCLEO_REPO - never in /repo) and record which check catches it.
usage: seed_eval.py <seed id> [property ...]   (default: the seed's own property)"""
import json, os, subprocess, sys, re, time
sid = sys.argv[1]
d = "/verif/seeded/" + sid
meta = json.load(open(d + "/meta.json"))
props = sys.argv[2:] or [meta["property"]]
WT = "/tmp/seedeval-wt-%s" % sid
subprocess.run("git -C /repo worktree remove --force %s 2>/dev/null; git -C /repo worktree add -q --detach %s HEAD" % (WT, WT), shell=True, check=True)
try:
    subprocess.run(["git", "apply", d + "/patch.diff"], cwd=WT, check=True)
    res = {}
    for p in props:
        env = dict(os.environ, NUCLEO_REPO=WT, VERIF_EVIDENCE_DIR="/tmp/seedeval-ev-%s" % sid, VERIF_REPLAY_DIR="/tmp/seedeval-rp-%s" % sid)
        t0 = time.time()
        r = subprocess.run(["./check", p, "--tier", os.environ.get("SEED_TIER", "quick")], cwd="/verif", env=env, capture_output=True, text=True)
        viol = [l for l in r.stdout.splitlines() if l.startswith("VIOLATION") or l.strip().startswith("harness=")]
        inc = [l for l in r.stdout.splitlines() if l.startswith("INCONCLUSIVE")]
        res[p] = {"exit": r.returncode, "violations": viol[:6], "inconclusive": inc[:4], "wall_s": round(time.time() - t0)}
        print(sid, p, "exit", r.returncode, viol[:2], inc[:2], flush=True)
    meta.setdefault("check_results", {}).update(res)
    meta["detected_by"] = [p for p, v in meta["check_results"].items() if v["exit"] == 1]
    json.dump(meta, open(d + "/meta.json", "w"), indent=1)
finally:
    subprocess.run("git -C /repo worktree remove --force %s" % WT, shell=True)
    subprocess.run("rm -rf /tmp/seedeval-ev-%s /tmp/seedeval-rp-%s" % (sid, sid), shell=True)
