// The tick / worker protocol on the REAL Nucleo, Injector, Snapshot, Worker::run, boxcar::Vec and
// par_quicksort, executed on one thread against the rayon / parking_lot shims. The harness is
// the UI thread; a spawned background run is executed (as an ordinary call of the real closure)
// at a point the solver picks.
use super::common::*;
use super::sym::{self, assume, check, cover};
use crate::{Config, Injector, Nucleo, Status, Utf32String};
use std::sync::Arc;

static mut NOTIFY: u32 = 0;
fn notify_count() -> u32 {
    unsafe { *std::ptr::addr_of!(NOTIFY) }
}
fn notify_fn() -> Arc<dyn Fn() + Sync + Send> {
    unsafe { *std::ptr::addr_of_mut!(NOTIFY) = 0 };
    Arc::new(|| unsafe {
        let n = &mut *std::ptr::addr_of_mut!(NOTIFY);
        *n = n.saturating_add(1);
    })
}

/// contention hooks: a blocked UI thread lets the pool task run
fn on_block() {
    let ran = rayon::verif_run_pending();
    assert!(ran, "ENGINE blocked on the worker lock but no pool task is pending");
}
fn install_hooks() {
    *parking_lot::VERIF_ON_BLOCK.get() = Some(on_block);
    *parking_lot::VERIF_ON_TIMED.get() = Some(on_timed);
}
/// timed lock on a held mutex: the solver decides whether the run completes within the time-out
fn on_timed() -> parking_lot::Timed {
    let k = sym::u8_();
    assume(k < 3);
    match k {
        0 => {
            let ran = rayon::verif_run_pending();
            assert!(ran, "ENGINE timed lock on a held mutex but no pool task is pending");
            parking_lot::Timed::Acquire
        }
        1 => parking_lot::Timed::TimeOut,
        _ => {
            let ran = rayon::verif_run_pending();
            assert!(ran, "ENGINE timed lock on a held mutex but no pool task is pending");
            parking_lot::Timed::TimeOutHolderDone
        }
    }
}

// ---------------------------------------------------------------------------------------------
// C20: active_injectors == live handles of the current stream
// ---------------------------------------------------------------------------------------------
pub fn injector_count<const STEPS: usize>() {
    install_hooks();
    let mut n: Nucleo<u32> = Nucleo::new(Config::DEFAULT, notify_fn(), Some(1), 1);
    let mut handles: [Option<Injector<u32>>; 3] = [None, None, None];
    let mut gen = [0u8; 3];
    let mut cur = 0u8;
    check!(n.active_injectors() == 0, "C20 a fresh matcher has no active injector");
    let mut step = 0;
    while step < STEPS {
        let op = sym::u8_();
        assume(op < 6);
        let k = sym::u8_() as usize;
        assume(k < 3);
        match op {
            0 => {
                if handles[k].is_none() {
                    handles[k] = Some(n.injector());
                    gen[k] = cur;
                }
            }
            1 => {
                let j = (k + 1) % 3;
                if handles[j].is_none() {
                    if let Some(h) = &handles[k] {
                        let c = h.clone();
                        handles[j] = Some(c);
                        gen[j] = gen[k];
                    }
                }
            }
            2 => {
                handles[k] = None;
            }
            3 => {
                n.restart(sym::bool_());
                cur += 1;
            }
            4 => {
                let _ = n.tick(0);
            }
            _ => {
                // the background run (if one is pending) completes now
                let _ = rayon::verif_run_pending();
            }
        }
        let mut want = 0;
        let mut i = 0;
        while i < 3 {
            if handles[i].is_some() && gen[i] == cur {
                want += 1;
            }
            i += 1;
        }
        check!(n.active_injectors() == want, "C20 active_injectors equals the number of live injector handles of the current stream");
        step += 1;
    }
    cover!(cur > 0, "history with a restart");
    // let the pending task finish so that dropping the matcher does not block
    let _ = rayon::verif_run_pending();
    std::mem::forget(handles);
    std::mem::forget(n);
}

// ---------------------------------------------------------------------------------------------
// shared scenario pieces
// ---------------------------------------------------------------------------------------------
fn fill(v: &u32, cols: &mut [Utf32String]) {
    let _ = v;
    cols[0] = Utf32String::default();
}

/// snapshot facts every tick must leave behind (C06, the parts that do not need scores)
fn check_snapshot(n: &Nucleo<u32>, completed: u32) {
    let s = n.snapshot();
    let m = s.matches();
    check!(s.matched_item_count() as usize == m.len(), "C06 matched_item_count is the number of matches");
    check!(m.len() as u32 <= s.item_count(), "C06 there are no more matches than processed items");
    check!(s.item_count() <= completed, "C06 the reported item count never exceeds the number of items whose push completed");
    let mut i = 0;
    while i < m.len() {
        check!(m[i].idx < completed, "C06 every match refers to an item whose push has completed");
        let it = s.get_matched_item(i as u32);
        check!(it.is_some(), "C06 every match can be dereferenced");
        if let Some(it) = it {
            // pointer validity of the item and its columns is checked by reading them
            check!(*it.data == 100 + m[i].idx, "C06 a match dereferences to the item injected at that index");
            check!(it.matcher_columns.len() == 1, "C06 a matched item carries its matcher columns");
        }
        let mut j = 0;
        while j < i {
            check!(m[j].idx != m[i].idx, "C06 no item appears twice in a snapshot");
            j += 1;
        }
        if i > 0 {
            check!(m[i - 1].score > m[i].score || (m[i - 1].score == m[i].score && m[i - 1].idx < m[i].idx), "C06 matches are ordered by descending score, then ascending index (equal haystack lengths)");
        }
        i += 1;
    }
}

// ---------------------------------------------------------------------------------------------
// C13: a tick that reports 'running' is followed by a notification
// ---------------------------------------------------------------------------------------------
pub fn wakeup<const ITEMS: usize>() {
    install_hooks();
    let mut n: Nucleo<u32> = Nucleo::new(Config::DEFAULT, notify_fn(), Some(1), 1);
    let inj = n.injector();
    let mut k = 0;
    while k < ITEMS {
        let before = notify_count();
        let idx = inj.push(100 + k as u32, fill);
        check!(notify_count() > before, "C13 every push calls notify");
        check!(inj.get(idx).is_some(), "C13 the pushed item is visible when push returns (notify comes after publication)");
        k += 1;
    }
    // first tick: any timeout behaviour (solver-chosen inside the timed lock)
    let c0 = notify_count();
    let st = n.tick(10);
    check_snapshot(&n, ITEMS as u32);
    if st.running {
        // the event loop now sleeps until notified: whatever is still pending completes
        let _ = rayon::verif_run_pending();
        check!(notify_count() > c0, "C13 a tick that reports 'running' is followed by a notification once the background run has finished");
        cover!(parking_lot::VERIF_TIMEOUTS.get().clone() > 0, "timed lock attempt failed");
    } else {
        check!(!rayon::verif_pending(), "C19 a tick that reports 'not running' leaves no background run behind");
    }
    cover!(st.running, "tick reports running");
    cover!(!st.running, "tick reports not running");
    let _ = rayon::verif_run_pending();
    // the notified event loop ticks again and must see every item
    let st2 = n.tick(10);
    check_snapshot(&n, ITEMS as u32);
    let _ = rayon::verif_run_pending();
    std::mem::forget(inj);
    std::mem::forget(n);
}

include!(concat!(env!("NUCLEO_VERIF_GEN"), "/nucleo_proto.rs"));
