// The tick / worker protocol on the REAL Nucleo, Injector, Snapshot, Worker::run, boxcar::Vec and
// par_quicksort, executed on one thread against the rayon / parking_lot shims. The harness is
// the UI thread; a spawned background run is executed (as an ordinary call of the real closure)
// at a point the solver picks.
use super::common::*;
use super::sym::{self, assume, check, cover};
use crate::{Config, Injector, Nucleo, Status, Utf32String};
use std::sync::Arc;

static mut NOTIFY: u32 = 0;
fn notify_count() -> u32 {
    unsafe { *std::ptr::addr_of!(NOTIFY) }
}
fn notify_fn() -> Arc<dyn Fn() + Sync + Send> {
    unsafe { *std::ptr::addr_of_mut!(NOTIFY) = 0 };
    Arc::new(|| unsafe {
        let n = &mut *std::ptr::addr_of_mut!(NOTIFY);
        *n = n.saturating_add(1);
    })
}

/// Contention is resolved inside the parking_lot shim: a blocked UI thread lets the pool task
/// run; the outcomes of timed attempts on a held lock come from a per-instance sequence
/// (base-3 digits: 0 acquired in time, 1 timed out, 2 timed out and the holder finishes before the
/// caller's next instruction). The sequence is CONCRETE per harness instance: with symbolic
/// outcomes the continuations differ in vector lengths / reference counts, CBMC merges them into
/// symbolic sizes and does not finish (measured: > 10 min for one tick). The driver enumerates
/// the sequences; CBMC executes the real code along each and decides the assertions and Kani's
/// safety checks over the remaining symbolic data.
fn install_hooks() {}
fn set_timed(seq: u32) {
    *parking_lot::VERIF_TIMED_SEQ.get() = seq;
}

// ---------------------------------------------------------------------------------------------
// C20: active_injectors == live handles of the current stream
// ---------------------------------------------------------------------------------------------
pub fn injector_count<const STEPS: usize>(code: u32, timed: u32) {
    install_hooks();
    set_timed(timed);
    let mut n: Nucleo<u32> = Nucleo::new(Config::DEFAULT, notify_fn(), Some(1), 1);
    let mut handles: [Option<Injector<u32>>; 3] = [None, None, None];
    let mut gen = [0u8; 3];
    let mut cur = 0u8;
    check!(n.active_injectors() == 0, "C20 a fresh matcher has no active injector");
    // operation KINDS are concrete per harness instance (base-6 digits of `code`): with symbolic
    // kinds CBMC loses the concrete lengths of the pattern / match vectors across the merge and
    // does not finish; the parameters (which slot, restart flag, whether a pending run completes,
    // timed-lock outcome) are solver variables
    let mut code = code;
    let mut step = 0;
    while step < STEPS {
        let op = (code % 6) as u8;
        code /= 6;
        let k = (code % 3) as usize;
        code /= 3;
        match op {
            0 => {
                if handles[k].is_none() {
                    handles[k] = Some(n.injector());
                    gen[k] = cur;
                }
            }
            1 => {
                let j = (k + 1) % 3;
                if handles[j].is_none() {
                    if let Some(h) = &handles[k] {
                        let c = h.clone();
                        handles[j] = Some(c);
                        gen[j] = gen[k];
                    }
                }
            }
            2 => {
                handles[k] = None;
            }
            3 => {
                n.restart(k % 2 == 1);
                cur += 1;
            }
            4 => {
                let _ = n.tick(0);
            }
            _ => {
                // the background run (if one is pending) completes now
                let _ = rayon::verif_run_pending();
            }
        }
        let mut want = 0;
        let mut i = 0;
        while i < 3 {
            if handles[i].is_some() && gen[i] == cur {
                want += 1;
            }
            i += 1;
        }
        check!(n.active_injectors() == want, "C20 active_injectors equals the number of live injector handles of the current stream");
        step += 1;
    }
    cover!(cur > 0, "history with a restart");
    // let the pending task finish so that dropping the matcher does not block
    let _ = rayon::verif_run_pending();
    std::mem::forget(handles);
    std::mem::forget(n);
}

// ---------------------------------------------------------------------------------------------
// shared scenario pieces
// ---------------------------------------------------------------------------------------------
fn fill(v: &u32, cols: &mut [Utf32String]) {
    let _ = v;
    cols[0] = Utf32String::default();
}

/// snapshot facts every tick must leave behind (C06, the parts that do not need scores)
fn check_snapshot(n: &Nucleo<u32>, completed: u32) {
    check_snapshot_base(n, completed, 100)
}

/// a tick with the C19 obligations around it: `completed` = pushes of the current stream that had
/// returned before the call
fn tick_checked(n: &mut Nucleo<u32>, timeout: u64, completed: u32, base: u32) -> Status {
    // with writers in flight the completed pushes are the ghost set, not a prefix
    let completed = unsafe {
        if *std::ptr::addr_of!(USE_MASK) {
            (*std::ptr::addr_of!(PUBLISHED)).count_ones()
        } else {
            completed
        }
    };
    let before_count = n.snapshot().item_count();
    let before_matches: Vec<crate::Match> = n.snapshot().matches().to_vec();
    let before_atoms = n.snapshot().pattern().column_pattern(0).atoms.len();
    let st = n.tick(timeout);
    if !st.changed {
        let s = n.snapshot();
        check!(s.item_count() == before_count, "C19 a tick that reports 'unchanged' leaves the item count as it was");
        check!(s.matches().len() == before_matches.len(), "C19 a tick that reports 'unchanged' leaves the matches as they were (length)");
        let mut i = 0;
        while i < s.matches().len() && i < before_matches.len() {
            check!(s.matches()[i] == before_matches[i], "C19 a tick that reports 'unchanged' leaves the matches as they were");
            i += 1;
        }
        check!(s.pattern().column_pattern(0).atoms.len() == before_atoms, "C19 a tick that reports 'unchanged' leaves the snapshot pattern as it was");
    }
    if !st.running {
        check!(n.snapshot().item_count() >= completed, "C19 a tick that reports 'not running' accounts for every item whose push completed before the call");
        check!(n.snapshot().pattern().column_pattern(0).atoms == n.pattern.column_pattern(0).atoms, "C19 a tick that reports 'not running' leaves the snapshot pattern equal to the matcher's current pattern");
        check!(!rayon::verif_pending(), "C19 a tick that reports 'not running' leaves no background run behind");
    }
    check_snapshot_base(n, completed, base);
    std::mem::forget(before_matches);
    st
}

/// ghost: bit i set = the push of index i (current stream) has completed
static mut PUBLISHED: u32 = 0;
static mut USE_MASK: bool = false;
fn published(i: u32, completed: u32) -> bool {
    unsafe {
        if *std::ptr::addr_of!(USE_MASK) {
            i < 32 && (*std::ptr::addr_of!(PUBLISHED) >> i) & 1 == 1
        } else {
            i < completed
        }
    }
}
fn set_published(i: u32) {
    unsafe {
        *std::ptr::addr_of_mut!(USE_MASK) = true;
        *std::ptr::addr_of_mut!(PUBLISHED) |= 1 << i;
    }
}

fn check_snapshot_base(n: &Nucleo<u32>, completed: u32, base: u32) {
    let s = n.snapshot();
    let m = s.matches();
    check!(s.matched_item_count() as usize == m.len(), "C06 matched_item_count is the number of matches");
    check!(m.len() as u32 <= s.item_count(), "C06 there are no more matches than processed items");
    let completed_n = unsafe {
        if *std::ptr::addr_of!(USE_MASK) { (*std::ptr::addr_of!(PUBLISHED)).count_ones() } else { completed }
    };
    check!(s.item_count() <= completed_n, "C06 the reported item count never exceeds the number of items whose push completed");
    let mut i = 0;
    while i < m.len() {
        check!(published(m[i].idx, completed), "C06 every match refers to an item whose push has completed");
        let it = s.get_matched_item(i as u32);
        check!(it.is_some(), "C06 every match can be dereferenced");
        if let Some(it) = it {
            // pointer validity of the item and its columns is checked by reading them
            check!(*it.data == base + m[i].idx, "C06 a match dereferences to the item injected at that index of the snapshot's stream");
            check!(it.matcher_columns.len() == 1, "C06 a matched item carries its matcher columns");
        }
        let mut j = 0;
        while j < i {
            check!(m[j].idx != m[i].idx, "C06 no item appears twice in a snapshot");
            j += 1;
        }
        if i > 0 {
            check!(m[i - 1].score > m[i].score || (m[i - 1].score == m[i].score && m[i - 1].idx < m[i].idx), "C06 matches are ordered by descending score, then ascending index (equal haystack lengths)");
        }
        i += 1;
    }
}

// ---------------------------------------------------------------------------------------------
// C13: a tick that reports 'running' is followed by a notification
// ---------------------------------------------------------------------------------------------
pub fn wakeup<const ITEMS: usize>(timed: u8, second_push: bool) {
    install_hooks();
    set_timed(timed as u32);
    let mut n: Nucleo<u32> = Nucleo::new(Config::DEFAULT, notify_fn(), Some(1), 1);
    let inj = n.injector();
    unsafe { *std::ptr::addr_of_mut!(USE_MASK) = false };
    let mut k = 0;
    while k < ITEMS {
        let before = notify_count();
        let idx = inj.push(100 + k as u32, fill);
        check!(notify_count() > before, "C13 every push calls notify");
        check!(inj.get(idx).is_some(), "C13 the pushed item is visible when push returns (notify comes after publication)");
        k += 1;
    }
    // first tick: any timeout behaviour (solver-chosen inside the timed lock)
    let c0 = notify_count();
    let w0 = *parking_lot::VERIF_HOLDER_DONE.get();
    let st = tick_checked(&mut n, 10, ITEMS as u32, 100);
    if st.running {
        // the event loop now sleeps until notified: whatever is still pending completes
        let _ = rayon::verif_run_pending();
        // Known finding D11 (see /verif/known_findings.json): if the background run finishes
        // between the tick's timed lock attempt giving up and the tick re-arming the flag, nobody
        // notifies. Exactly that window is reported as KNOWN-FINDING; a lost wake-up on any other
        // schedule is a violation.
        let window = *parking_lot::VERIF_HOLDER_DONE.get() > w0;
        let notified = notify_count() > c0;
        cover!(window && !notified, "KNOWN-FINDING D11 the run finishes between the failed timed lock attempt and the tick re-arming the notification flag: tick reports 'running' and no notification ever follows");
        if !window {
            check!(notified, "C13 a tick that reports 'running' is followed by a notification once the background run has finished");
        }
        cover!(parking_lot::VERIF_TIMEOUTS.get().clone() > 0, "INFO timed lock attempt failed");
    }
    cover!(st.running, "INFO tick reports running");
    cover!(!st.running, "INFO tick reports not running");
    let _ = rayon::verif_run_pending();
    // a further item arrives while the finished run has not been collected yet: the next tick
    // both collects (changed) and starts another run (running) - and must be followed by a notify
    let mut total = ITEMS as u32;
    if second_push {
        let idx = inj.push(100 + total, fill);
        check!(idx == total, "C08 pushes receive consecutive indices");
        total += 1;
    }
    let c1 = notify_count();
    let w1 = *parking_lot::VERIF_HOLDER_DONE.get();
    let st2 = tick_checked(&mut n, 10, total, 100);
    if st2.running {
        let _ = rayon::verif_run_pending();
        if *parking_lot::VERIF_HOLDER_DONE.get() == w1 {
            check!(notify_count() > c1, "C13 a tick that reports 'running' is followed by a notification once the background run has finished (second tick)");
        }
    }
    cover!(st2.running && st2.changed, "INFO tick that both collected results and started another run");
    let _ = rayon::verif_run_pending();
    let st3 = tick_checked(&mut n, 10, total, 100);
    let _ = rayon::verif_run_pending();
    if !st3.running {
        check!(n.snapshot().item_count() == total && n.snapshot().matched_item_count() == total, "C07 once quiescent, the snapshot holds every injected item (empty pattern matches everything)");
    }
    std::mem::forget(inj);
    std::mem::forget(n);
}

/// A run that is started because the PATTERN changed (here: re-parsed to the same, empty text, which
/// requests a rescore) and not because items arrived. The tick that starts it cancels, restarts and
/// then waits with its timed lock attempt. `timed`: base-3 outcomes of the contended timed attempts, the
/// first one belongs to the very first tick (a fresh matcher counts as canceled), the second one to the
/// tick after the edit (0 acquired, 1 timed out, 2 timed out and the run finishes before the flag is
/// re-armed = the D11 window).
pub fn wakeup_rescore<const ITEMS: usize>(timed: u8) {
    install_hooks();
    set_timed(timed as u32);
    let mut n: Nucleo<u32> = Nucleo::new(Config::DEFAULT, notify_fn(), Some(1), 1);
    let inj = n.injector();
    unsafe { *std::ptr::addr_of_mut!(USE_MASK) = false };
    let mut k = 0;
    while k < ITEMS {
        let _ = inj.push(100 + k as u32, fill);
        k += 1;
    }
    let st = n.tick(10);
    if st.running {
        let _ = rayon::verif_run_pending();
    }
    let st = n.tick(10);
    check!(!st.running || ITEMS == 0, "C19 a tick after the run finished and without new items reports 'not running'");
    let _ = rayon::verif_run_pending();
    // the user edits the query to the same, empty text: MultiPattern::reparse(0, "", .., false) sets the
    // column status to Rescore and re-parses. Only the status assignment is executed here (through the
    // cfg(nucleo_verif) accessor): the text parser is outside what CBMC gets through (C14), and re-parsing
    // the empty text leaves the empty atom list as it is.
    {
        let (_, st) = crate::pattern::verif_access::col_mut(&mut n.pattern, 0);
        *st = crate::pattern::Status::Rescore;
    }
    let c0 = notify_count();
    let w0 = *parking_lot::VERIF_HOLDER_DONE.get();
    let st = n.tick(10);
    cover!(st.running, "INFO tick after a pattern edit reports running");
    if st.running {
        let _ = rayon::verif_run_pending();
        let window = *parking_lot::VERIF_HOLDER_DONE.get() > w0;
        let notified = notify_count() > c0;
        cover!(window && !notified, "KNOWN-FINDING D11 the run finishes between the failed timed lock attempt and the tick re-arming the notification flag: tick reports 'running' and no notification ever follows");
        if !window {
            check!(notified, "C13 a tick that reports 'running' after a pattern edit is followed by a notification once the background run has finished");
        }
    }
    let _ = rayon::verif_run_pending();
    let st = n.tick(10);
    let _ = rayon::verif_run_pending();
    if !st.running {
        check!(n.snapshot().item_count() == ITEMS as u32 && n.snapshot().matched_item_count() == ITEMS as u32, "C07 once quiescent, the snapshot holds every injected item (empty pattern matches everything)");
    }
    std::mem::forget(inj);
    std::mem::forget(n);
}

// ---------------------------------------------------------------------------------------------
// C06 with writers in flight: a batch writer whose iterator is slow. `extend` reserves all its
// indices up front and publishes item by item; whatever the harness does inside `next()` happens
// while the remaining indices are reserved-but-unpublished - exactly a writer thread paused
// between reservation and publication, with the UI thread ticking meanwhile. Every such
// schedule is a real schedule.
// ---------------------------------------------------------------------------------------------
static mut WRITER_RUNS: u32 = 0;
struct SlowWriter {
    n: *mut Nucleo<u32>,
    first_idx: u32,
    yielded: u32,
    total: u32,
}
impl Iterator for SlowWriter {
    type Item = u32;
    fn next(&mut self) -> Option<u32> {
        // the item yielded by the previous call has been published by now
        if self.yielded > 0 {
            set_published(self.first_idx + self.yielded - 1);
        }
        if self.yielded == self.total {
            return None;
        }
        // UI thread activity while this writer sits between reservation and publication
        let n = unsafe { &mut *self.n };
        let _ = tick_checked(n, 10, 0, 100);
        // does the background run complete (and the UI tick again) before this item is published?
        let go = unsafe {
            let r = &mut *std::ptr::addr_of_mut!(WRITER_RUNS);
            let g = *r % 2 == 1;
            *r /= 2;
            g
        };
        if go {
            let _ = rayon::verif_run_pending();
            let _ = tick_checked(n, 10, 0, 100);
        }
        let v = 100 + self.first_idx + self.yielded;
        self.yielded += 1;
        Some(v)
    }
}
impl ExactSizeIterator for SlowWriter {
    fn len(&self) -> usize {
        self.total as usize
    }
}

pub fn inflight_writer<const PRE: usize, const BATCH: usize>(timed: u32, runs: u32) {
    install_hooks();
    set_timed(timed);
    unsafe {
        *std::ptr::addr_of_mut!(WRITER_RUNS) = runs;
    }
    let mut n: Nucleo<u32> = Nucleo::new(Config::DEFAULT, notify_fn(), Some(1), 1);
    let inj = n.injector();
    unsafe {
        *std::ptr::addr_of_mut!(PUBLISHED) = 0;
        *std::ptr::addr_of_mut!(USE_MASK) = true;
    }
    let mut k = 0;
    while k < PRE {
        let idx = inj.push(100 + k as u32, fill);
        set_published(idx);
        k += 1;
    }
    let w = SlowWriter { n: &mut n as *mut _, first_idx: PRE as u32, yielded: 0, total: BATCH as u32 };
    inj.extend(w, fill);
    // everything is published now; the matcher must converge
    let _ = rayon::verif_run_pending();
    let st = tick_checked(&mut n, 10, 0, 100);
    let _ = rayon::verif_run_pending();
    let st2 = tick_checked(&mut n, 10, 0, 100);
    let _ = rayon::verif_run_pending();
    let st3 = tick_checked(&mut n, 10, 0, 100);
    if !st3.running {
        check!(n.snapshot().item_count() as usize == PRE + BATCH && n.snapshot().matches().len() == PRE + BATCH, "C07 once no writer is active and tick reports 'not running' the snapshot holds every injected item");
    }
    cover!(!st3.running, "quiescent at the end");
    std::mem::forget(inj);
    std::mem::forget(n);
}

// ---------------------------------------------------------------------------------------------
// C06 with a NON-EMPTY pattern and two writers in flight whose reserved slots are seen by the
// parallel scan in a given chunk order (`split`, `right_first`: the rayon shim's chunk plan).
// The two in-flight slots are reserved by a batch writer that never publishes them (an
// ExactSizeIterator that reports 2 items and yields none - the documented way to leave reserved
// indices unpublished; a paused writer looks exactly the same to the worker).
// ---------------------------------------------------------------------------------------------
struct Never;
impl Iterator for Never {
    type Item = u32;
    fn next(&mut self) -> Option<u32> {
        None
    }
}
impl ExactSizeIterator for Never {
    fn len(&self) -> usize {
        2
    }
}
fn fill_a(v: &u32, cols: &mut [Utf32String]) {
    let _ = v;
    cols[0] = Utf32String::from("a");
}

pub fn inflight_order(split: usize, right_first: bool, second_pattern: u8) {
    use crate::pattern::{CaseMatching, Normalization};
    set_timed(0);
    let mut n: Nucleo<u32> = Nucleo::new(Config::DEFAULT, notify_fn(), Some(1), 1);
    let inj = n.injector();
    unsafe {
        *std::ptr::addr_of_mut!(PUBLISHED) = 0;
        *std::ptr::addr_of_mut!(USE_MASK) = true;
    }
    inj.extend(Never, fill_a); // indices 0 and 1: reserved, never published
    let idx = inj.push(102, fill_a);
    set_published(idx);
    *rayon::VERIF_CHUNK_PLAN.get() = Some((split, right_first));
    n.pattern.reparse(0, "a", CaseMatching::Respect, Normalization::Never, false);
    let _ = tick_checked(&mut n, 10, 0, 100);
    let _ = rayon::verif_run_pending();
    let _ = tick_checked(&mut n, 10, 0, 100);
    check!(n.snapshot().matches().len() == 1, "C06 the matches are exactly the matching items among the processed ones (one published item matches)");
    // a second pattern edit: rescoring walks the in-flight list recorded by the parallel scan
    match second_pattern {
        0 => n.pattern.reparse(0, "", CaseMatching::Respect, Normalization::Never, false),
        _ => n.pattern.reparse(0, "a", CaseMatching::Respect, Normalization::Never, false),
    }
    let _ = tick_checked(&mut n, 10, 0, 100);
    let _ = rayon::verif_run_pending();
    let _ = tick_checked(&mut n, 10, 0, 100);
    check!(n.snapshot().matches().len() == 1 && n.snapshot().matches()[0].idx == 2, "C06 after a pattern edit the snapshot still holds exactly the published matching item");
    *rayon::VERIF_CHUNK_PLAN.get() = None;
    std::mem::forget(inj);
    std::mem::forget(n);
}

// ---------------------------------------------------------------------------------------------
// C12: restart isolates the new item stream from the old one
// ---------------------------------------------------------------------------------------------
pub fn restart_isolation<const OLD: usize, const NEW: usize>(timed: u32, run_before_restart: bool, clear: bool) {
    install_hooks();
    set_timed(timed);
    let mut n: Nucleo<u32> = Nucleo::new(Config::DEFAULT, notify_fn(), Some(1), 1);
    unsafe { *std::ptr::addr_of_mut!(USE_MASK) = false };
    let old = n.injector();
    let mut k = 0;
    while k < OLD {
        old.push(100 + k as u32, fill);
        k += 1;
    }
    let _ = tick_checked(&mut n, 10, OLD as u32, 100);
    // the run over the old stream completes before the restart, or is still pending
    if run_before_restart {
        let _ = rayon::verif_run_pending();
        let _ = tick_checked(&mut n, 10, OLD as u32, 100);
    }
    let before_count = n.snapshot().item_count();
    let before_len = n.snapshot().matches().len();
    n.restart(clear);
    if clear {
        check!(n.snapshot().item_count() == 0 && n.snapshot().matches().is_empty(), "C12 restart(true) empties the snapshot immediately");
    } else {
        check!(n.snapshot().item_count() == before_count && n.snapshot().matches().len() == before_len, "C12 restart(false) leaves the snapshot exactly as it was");
        check_snapshot_base(&n, OLD as u32, 100);
    }
    // the old injector keeps accepting items, without any effect on the matcher
    let idx = old.push(100 + OLD as u32, fill);
    check!(idx as usize == OLD && old.get(idx).is_some(), "C12 an injector created before the restart keeps accepting items");
    let new = n.injector();
    let mut k = 0;
    while k < NEW {
        new.push(200 + k as u32, fill);
        k += 1;
    }
    // ticks after the restart: the snapshot is either still the untouched old one or purely new
    let mut round = 0;
    while round < 2 {
        let st = n.tick(10);
        let s = n.snapshot();
        let m = s.matches();
        let mut olds = 0;
        let mut news = 0;
        let mut i = 0;
        while i < m.len() {
            if let Some(it) = s.get_matched_item(i as u32) {
                if *it.data >= 200 {
                    news += 1;
                    check!(*it.data == 200 + m[i].idx, "C12 a match of the new stream dereferences to the item injected at that index");
                } else {
                    olds += 1;
                }
            }
            i += 1;
        }
        check!(olds == 0 || news == 0, "C12 items of the two streams are never mixed in one snapshot");
        if olds > 0 {
            check!(!clear && m.len() == before_len && s.item_count() == before_count, "C12 until a run over the new stream completes the snapshot stays exactly as it was (and only without clear_snapshot)");
        } else {
            check!(s.item_count() as usize <= NEW && m.len() <= NEW, "C12 no item injected before the restart - or through an old injector afterwards - appears in a snapshot of the new stream");
        }
        if !st.running && !rayon::verif_pending() {
            check!(s.item_count() as usize == NEW, "C07 once quiescent after a restart, the snapshot holds exactly the items of the new stream");
        }
        let _ = rayon::verif_run_pending();
        round += 1;
    }
    cover!(clear, "restart with clear_snapshot");
    cover!(!clear, "restart without clear_snapshot");
    std::mem::forget((old, new));
    std::mem::forget(n);
}

include!(concat!(env!("NUCLEO_VERIF_GEN"), "/nucleo_proto.rs"));

pub mod probes {
    use super::*;
    use crate::pattern::MultiPattern;
    pub fn probe_clone_from() {
        let p = MultiPattern::new(1);
        let mut q = MultiPattern::new(1);
        q.clone_from(&p);
        check!(q.is_empty(), "C06 probe");
        std::mem::forget((p, q));
    }
    pub fn probe_new() {
        install_hooks();
        let n: Nucleo<u32> = Nucleo::new(Config::DEFAULT, notify_fn(), Some(1), 1);
        check!(n.active_injectors() == 0, "C06 probe");
        std::mem::forget(n);
    }
    pub fn probe_tick() {
        install_hooks();
        let mut n: Nucleo<u32> = Nucleo::new(Config::DEFAULT, notify_fn(), Some(1), 1);
        let st = n.tick(10);
        check!(st.running, "C06 probe");
        std::mem::forget(n);
    }
    pub fn probe_tick_run() {
        install_hooks();
        let mut n: Nucleo<u32> = Nucleo::new(Config::DEFAULT, notify_fn(), Some(1), 1);
        let st = n.tick(10);
        let _ = rayon::verif_run_pending();
        check!(st.running, "C06 probe");
        std::mem::forget(n);
    }
    pub fn probe_a() {
        install_hooks();
        let n: Nucleo<u32> = Nucleo::new(Config::DEFAULT, notify_fn(), Some(1), 1);
        let inner = n.worker.lock_arc();
        check!(!inner.running, "C06 probe");
        std::mem::forget(inner);
        std::mem::forget(n);
    }
    pub fn probe_b() {
        install_hooks();
        let n: Nucleo<u32> = Nucleo::new(Config::DEFAULT, notify_fn(), Some(1), 1);
        let mut inner = n.worker.lock_arc();
        inner.pattern.clone_from(&n.pattern);
        check!(!inner.running, "C06 probe");
        std::mem::forget(inner);
        std::mem::forget(n);
    }
    pub fn probe_c() {
        install_hooks();
        let n: Nucleo<u32> = Nucleo::new(Config::DEFAULT, notify_fn(), Some(1), 1);
        let mut inner = n.worker.lock_arc();
        inner.items = n.items.clone();
        check!(!inner.running, "C06 probe");
        std::mem::forget(inner);
        std::mem::forget(n);
    }
    pub fn probe_d() {
        install_hooks();
        let n: Nucleo<u32> = Nucleo::new(Config::DEFAULT, notify_fn(), Some(1), 1);
        let mut inner = n.worker.lock_arc();
        unsafe { inner.run(crate::pattern::Status::Unchanged, true) };
        check!(inner.running, "C06 probe");
        std::mem::forget(inner);
        std::mem::forget(n);
    }
    pub fn probe_e() {
        install_hooks();
        let n: Nucleo<u32> = Nucleo::new(Config::DEFAULT, notify_fn(), Some(1), 1);
        let mut inner = n.worker.lock();
        inner.pattern.clone_from(&n.pattern);
        check!(!inner.running, "C06 probe");
        std::mem::forget(inner);
        std::mem::forget(n);
    }
    pub fn probe_f() {
        let (pool, mut w) = crate::worker::Worker::<u32>::new(Some(1), Config::DEFAULT, notify_fn(), 1);
        w.items.push(100, fill);
        *rayon::VERIF_CUR.get() = Some(0);
        unsafe { w.run(crate::pattern::Status::Unchanged, true) };
        check!(w.running && w.matches.len() == 1, "C06 probe");
        std::mem::forget((pool, w));
    }
    pub fn probe_g() {
        // a Worker moved into a Box: is it the move to the heap that loses the constants?
        let (pool, w) = crate::worker::Worker::<u32>::new(Some(1), Config::DEFAULT, notify_fn(), 1);
        let mut b = Box::new(w);
        let p = crate::pattern::MultiPattern::new(1);
        b.pattern.clone_from(&p);
        check!(!b.running, "C06 probe");
        std::mem::forget((pool, b, p));
    }
    pub fn probe_h() {
        let (pool, mut w) = crate::worker::Worker::<u32>::new(Some(1), Config::DEFAULT, notify_fn(), 1);
        let p = crate::pattern::MultiPattern::new(1);
        w.pattern.clone_from(&p);
        check!(!w.running, "C06 probe");
        std::mem::forget((pool, w, p));
    }
    pub fn probe_i() {
        // struct holding a MultiPattern next to a Vec with capacity
        struct S { a: Vec<u32>, p: crate::pattern::MultiPattern, b: std::sync::Arc<u32> }
        let mut s = S { a: Vec::with_capacity(64), p: crate::pattern::MultiPattern::new(1), b: std::sync::Arc::new(1) };
        let p = crate::pattern::MultiPattern::new(1);
        s.p.clone_from(&p);
        check!(s.a.is_empty(), "C06 probe");
        std::mem::forget((s, p));
    }
    pub fn probe_heapvec() {
        struct Big { pad: [u64; 20], v: Vec<crate::Match>, pad2: [u64; 20] }
        let mut b = Box::new(Big { pad: [1; 20], v: Vec::new(), pad2: [2; 20] });
        b.v.extend((0..3u32).map(|i| crate::Match { score: i, idx: i }));
        b.v.push(crate::Match { score: 9, idx: 9 });
        check!(b.v.len() == 4 && b.v[3].idx == 9 && b.v[1].score == 1, "C06 probe heap vec");
        std::mem::forget(b);
    }
    pub fn probe_d1() {
        install_hooks();
        let n: Nucleo<u32> = Nucleo::new(Config::DEFAULT, notify_fn(), Some(1), 1);
        let inj = n.injector();
        inj.push(100, fill);
        let mut inner = n.worker.lock_arc();
        *rayon::VERIF_CUR.get() = Some(0);
        unsafe { inner.run(crate::pattern::Status::Unchanged, true) };
        check!(inner.running && inner.matches.len() == 1, "C06 probe d1");
        std::mem::forget(inner);
        std::mem::forget((n, inj));
    }
    pub fn probe_d2() {
        // same, Worker on the stack
        let (pool, mut w) = crate::worker::Worker::<u32>::new(Some(1), Config::DEFAULT, notify_fn(), 1);
        w.items.push(100, fill);
        *rayon::VERIF_CUR.get() = Some(0);
        unsafe { w.run(crate::pattern::Status::Unchanged, true) };
        check!(w.running && w.matches.len() == 1, "C06 probe d2");
        std::mem::forget((pool, w));
    }
    pub fn probe_d3() {
        install_hooks();
        let n: Nucleo<u32> = Nucleo::new(Config::DEFAULT, notify_fn(), Some(1), 1);
        let inj = n.injector();
        inj.push(100, fill);
        let mut inner = n.worker.lock();
        *rayon::VERIF_CUR.get() = Some(0);
        unsafe { inner.run(crate::pattern::Status::Unchanged, true) };
        check!(inner.running && inner.matches.len() == 1, "C06 probe d3");
        std::mem::forget(inner);
        std::mem::forget((n, inj));
    }
    pub fn probe_d4() {
        // Worker boxed (heap), no mutex
        let (pool, w) = crate::worker::Worker::<u32>::new(Some(1), Config::DEFAULT, notify_fn(), 1);
        let mut w = Box::new(w);
        w.items.push(100, fill);
        *rayon::VERIF_CUR.get() = Some(0);
        unsafe { w.run(crate::pattern::Status::Unchanged, true) };
        check!(w.running && w.matches.len() == 1, "C06 probe d4");
        std::mem::forget((pool, w));
    }
    pub fn probe_d5() {
        let (pool, w) = crate::worker::Worker::<u32>::new(Some(1), Config::DEFAULT, notify_fn(), 1);
        let items = w.items.clone();
        let m = Arc::new(parking_lot::Mutex::new(w));
        items.push(100, fill);
        let mut inner = m.lock();
        *rayon::VERIF_CUR.get() = Some(0);
        unsafe { inner.run(crate::pattern::Status::Unchanged, true) };
        check!(inner.running && inner.matches.len() == 1, "C06 probe d5");
        std::mem::forget(inner);
        std::mem::forget((pool, m, items));
    }
    pub fn probe_d7() {
        let big: Vec<crate::Match> = Vec::with_capacity(2 * 1024);
        let (pool, w) = crate::worker::Worker::<u32>::new(Some(1), Config::DEFAULT, notify_fn(), 1);
        let items = w.items.clone();
        let m = Arc::new(parking_lot::Mutex::new(w));
        items.push(100, fill);
        let mut inner = m.lock();
        *rayon::VERIF_CUR.get() = Some(0);
        unsafe { inner.run(crate::pattern::Status::Unchanged, true) };
        check!(inner.running && inner.matches.len() == 1, "C06 probe d7");
        std::mem::forget(inner);
        std::mem::forget((pool, m, items, big));
    }
    pub fn probe_d8() {
        let n: Nucleo<u32> = Nucleo::new(Config::DEFAULT, notify_fn(), Some(1), 1);
        n.items.push(100, fill);
        let mut inner = n.worker.lock();
        *rayon::VERIF_CUR.get() = Some(0);
        unsafe { inner.run(crate::pattern::Status::Unchanged, false) };
        check!(inner.running && inner.matches.len() == 1, "C06 probe d8");
        std::mem::forget(inner);
        std::mem::forget(n);
    }
    pub fn probe_d9() {
        install_hooks();
        let n: Nucleo<u32> = Nucleo::new(Config::DEFAULT, Arc::new(|| ()), Some(1), 1);
        let inj = n.injector();
        inj.push(100, fill);
        let mut inner = n.worker.lock();
        *rayon::VERIF_CUR.get() = Some(0);
        unsafe { inner.run(crate::pattern::Status::Unchanged, true) };
        check!(inner.running && inner.matches.len() == 1, "C06 probe d9");
        std::mem::forget(inner);
        std::mem::forget((n, inj));
    }
    pub fn probe_d10() {
        // like d3 but without install_hooks
        let n: Nucleo<u32> = Nucleo::new(Config::DEFAULT, notify_fn(), Some(1), 1);
        let inj = n.injector();
        inj.push(100, fill);
        let mut inner = n.worker.lock();
        *rayon::VERIF_CUR.get() = Some(0);
        unsafe { inner.run(crate::pattern::Status::Unchanged, true) };
        check!(inner.running && inner.matches.len() == 1, "C06 probe d10");
        std::mem::forget(inner);
        std::mem::forget((n, inj));
    }
    pub fn probe_d6() {
        // Nucleo::new, but the run is executed on the worker without taking the lock through the shim
        let n: Nucleo<u32> = Nucleo::new(Config::DEFAULT, notify_fn(), Some(1), 1);
        n.items.push(100, fill);
        let mut inner = n.worker.lock();
        check!(inner.matches.len() == 0, "C06 probe d6 pre");
        inner.matches.push(crate::Match { score: 1, idx: 0 });
        check!(inner.matches.len() == 1, "C06 probe d6");
        std::mem::forget(inner);
        std::mem::forget(n);
    }
    harnesses_nostub! {
        probe_d5_h [8] => probe_d5();
        probe_d9_h [8] => probe_d9();
        probe_d10_h [8] => probe_d10();
        probe_d8_h [8] => probe_d8();
        probe_d7_h [8] => probe_d7();
        probe_d6_h [8] => probe_d6();
        probe_d3_h [8] => probe_d3();
        probe_d4_h [8] => probe_d4();
        probe_d1_h [8] => probe_d1();
        probe_d2_h [8] => probe_d2();
        probe_heapvec_h [8] => probe_heapvec();
        probe_h_h [8] => probe_h();
        probe_i_h [8] => probe_i();
        probe_e_h [8] => probe_e();
        probe_f_h [8] => probe_f();
        probe_g_h [8] => probe_g();
        probe_a_h [8] => probe_a();
        probe_b_h [8] => probe_b();
        probe_c_h [8] => probe_c();
        probe_d_h [8] => probe_d();
        probe_clone_from_h [8] => probe_clone_from();
        probe_new_h [8] => probe_new();
        probe_tick_h [8] => probe_tick();
        probe_tick_run_h [8] => probe_tick_run();
    }
}
