// C06 / C07 / C19 with NON-EMPTY patterns: the real Nucleo, Worker::run (scan of new items, in-flight
// placeholders, rescoring after Update / Rescore, par_quicksort with the real comparator, truncation)
// on one thread against the rayon / parking_lot shims - with `MultiPattern::score` replaced, under
// Kani only, by a TABLE of the real function's values on the texts the items can hold.
//
// The table (gen/score_table.rs) is produced at check time by running the real
// `MultiPattern::score` of the current tree natively on every (pattern, text) pair below; the
// matcher itself is the subject of C01 - C05 / C15. The native replay of a counterexample runs
// the real score function, so a wrong table cannot produce a violation report.
use super::common::*;
use super::sym::{self, assume, check, cover};
use crate::pattern::{CaseMatching, MultiPattern, Normalization};
use crate::{Config, Matcher, Nucleo, Status, Utf32String};
use std::sync::Arc;

include!(concat!(env!("NUCLEO_VERIF_GEN"), "/score_table.rs"));

// PATS (patterns of column 0; id 0 is the empty pattern) and TEXTS (every string over {a, b} of
// length 1 or 2) live in common.rs: the native table generator (replay.rs) uses the same lists.

fn text_id(len: usize, c0: u8, c1: u8) -> usize {
    let b0 = (c0 == b'b') as usize;
    let b1 = (c1 == b'b') as usize;
    if len == 1 {
        b0
    } else {
        2 + 2 * b0 + b1
    }
}

fn table(pid: usize, tid: usize) -> Option<u32> {
    let v = SCORE_TABLE[pid][tid];
    if v < 0 {
        None
    } else {
        Some(v as u32)
    }
}

/// the stand-in for MultiPattern::score (Kani only)
pub fn stub_multi_score(p: &MultiPattern, haystack: &[Utf32String], _m: &mut Matcher) -> Option<u32> {
    assert!(SCORE_TABLE_VALID, "ENGINE the score table was not generated for this run");
    let pat = p.column_pattern(0);
    let pid = if pat.atoms.is_empty() {
        0
    } else {
        let a = &pat.atoms[0];
        let t = a.needle_text();
        if a.negative {
            4
        } else if t.len() == 2 {
            2
        } else if t.get(0) == 'a' {
            1
        } else {
            3
        }
    };
    let h = haystack[0].slice(..);
    let len = h.len();
    assert!(len == 1 || len == 2, "ENGINE score stub: unexpected item text");
    let c0 = h.get(0) as u32 as u8;
    let c1 = if len == 2 { h.get(1) as u32 as u8 } else { b'a' };
    table(pid, text_id(len, c0, c1))
}

static mut NOTIFY: u32 = 0;
fn notify_fn() -> Arc<dyn Fn() + Sync + Send> {
    Arc::new(|| unsafe {
        let n = &mut *std::ptr::addr_of_mut!(NOTIFY);
        *n = n.saturating_add(1);
    })
}

const MAXI: usize = 6;
/// ghost: (length, first char, second char) of the text of item k; whether its push completed
static mut TXT: [(usize, u8, u8); MAXI] = [(1, b'a', b'a'); MAXI];
static mut DONE: [bool; MAXI] = [false; MAXI];

fn fill_t(v: &u32, cols: &mut [Utf32String]) {
    let k = (*v - 100) as usize;
    let (len, c0, c1) = unsafe { (*std::ptr::addr_of!(TXT))[k] };
    let b = [c0, c1];
    // safety: both bytes are 'a' or 'b'
    let s = unsafe { std::str::from_utf8_unchecked(&b[..len]) };
    cols[0] = Utf32String::Ascii(s.into());
}

fn sym_ab() -> u8 {
    if sym::bool_() {
        b'a'
    } else {
        b'b'
    }
}

/// reserves `N` indices and never publishes them (a writer paused between reservation and
/// publication looks exactly like this to the worker)
struct Never<const N: usize>;
impl<const N: usize> Iterator for Never<N> {
    type Item = u32;
    fn next(&mut self) -> Option<u32> {
        None
    }
}
impl<const N: usize> ExactSizeIterator for Never<N> {
    fn len(&self) -> usize {
        N
    }
}

/// the whole snapshot against the oracle: pattern `pid`, items 0..total of which DONE[k] are published
fn check_scored(n: &Nucleo<u32>, pid: usize, total: usize, dbg: u32, restarted: bool) {
    let s = n.snapshot();
    let m = s.matches();
    let mut published = 0u32;
    let mut want = 0usize;
    let mut k = 0;
    while k < total {
        let (done, (len, c0, c1)) = unsafe { ((*std::ptr::addr_of!(DONE))[k], (*std::ptr::addr_of!(TXT))[k]) };
        if done {
            published += 1;
            if table(pid, text_id(len, c0, c1)).is_some() {
                want += 1;
            }
        }
        k += 1;
    }
    if dbg & 1 != 0 {
        check!(s.item_count() >= published, "C19 a tick that reports 'not running' accounts for every item whose push completed before the call");
    }
    if restarted {
        // (a failed check cuts the path under Kani, so the same fact is asserted under ONE property per
        // instance: instances with a restart speak for C12, the others for C06 / C07)
        check!(s.item_count() == published, "C12 after a restart the item count is the number of completed pushes of the NEW stream");
        check!(m.len() == want, "C12 after a restart the matches are exactly the matching items of the NEW stream");
    }
    check!(s.item_count() == published, "C07 once quiescent, the item count is the number of items whose push completed");
    check!(s.matched_item_count() as usize == m.len(), "C06 matched_item_count is the number of matches");
    check!(m.len() <= total, "C06 there are no more matches than processed items");
    check!(m.len() == want, "C06 the matches are exactly the matching items among the processed ones (non-empty pattern)");
    // (loop bounds are the concrete number of items: CBMC does not see the length of the match list as a
    // constant; items are dereferenced through a CONCRETE index k after the case split idx == k - a lookup
    // through the symbolic index makes the pointer analysis of the whole item store part of the formula)
    // dbg & 8: counts only. Reading an ENTRY of the match list of a non-empty pattern back in the harness
    // does not get through CBMC's array theory (the list is copied into the snapshot by a memcpy of
    // symbolic size; measured: > 10 min in post-processing for a single entry, all array encodings), so the
    // registered instances stop here; the entry-wise part below runs in the native replay only when asked for.
    if dbg & 8 != 0 {
        return;
    }
    // every entry of the match list is read ONCE into a local copy (after the sort an entry is a deeply
    // nested conditional expression for CBMC; each further read of the heap copy repeats it)
    let mlen = m.len();
    let mut mm = [(0u32, 0u32); MAXI];
    let mut i = 0;
    while i < total && i < mlen {
        let e = m[i];
        mm[i] = (e.score, e.idx);
        i += 1;
    }
    let mut i = 0;
    while i < total && i < mlen {
        let mut found = false;
        let mut k = 0;
        while k < total {
            if mm[i].1 as usize == k {
                found = true;
                let done = unsafe { (*std::ptr::addr_of!(DONE))[k] };
                check!(done, "C06 every match refers to an item whose push has completed");
                if done {
                    let (len, c0, c1) = unsafe { (*std::ptr::addr_of!(TXT))[k] };
                    let sc = table(pid, text_id(len, c0, c1));
                    check!(sc == Some(mm[i].0), "C06 each match's score is the snapshot pattern's score for that item");
                    let it = s.get_item(k as u32);
                    check!(it.is_some(), "C06 every match can be dereferenced");
                    if let Some(it) = it {
                        check!(*it.data == 100 + k as u32, "C06 a match dereferences to the item injected at that index of the snapshot's stream");
                        check!(it.matcher_columns.len() == 1 && it.matcher_columns[0].len() == len, "C06 a matched item carries its matcher columns");
                    }
                    if i > 0 {
                        let mut pk = 0;
                        while pk < total {
                            if mm[i - 1].1 as usize == pk {
                                let plen = unsafe { (*std::ptr::addr_of!(TXT))[pk].0 };
                                let (a, b) = (mm[i - 1], mm[i]);
                                let ordered = a.0 > b.0 || (a.0 == b.0 && (plen < len || (plen == len && a.1 < b.1)));
                                check!(ordered, "C06 matches are ordered by descending score, then ascending total haystack length, then ascending item index");
                            }
                            pk += 1;
                        }
                    }
                }
            }
            k += 1;
        }
        check!(found, "C06 every match refers to an item whose push has completed");
        let mut j = 0;
        while j < i {
            check!(mm[j].1 != mm[i].1, "C06 no item appears twice in a snapshot");
            j += 1;
        }
        i += 1;
    }
}

/// `script`: hexadecimal digits, least significant first, 0 ends:
///   1..=4 reparse column 0 to PATS[d] (append = false), 5 reparse to PATS[2] with append = true
///   (only after PATS[1]: the documented promise that the old text is a prefix), 6 push one more
///   item, 7 settle (tick, let the background run finish, tick) and compare with the oracle,
///   8 tick once and leave a started run PENDING (the next blocking lock - a tick after an edit or a
///   restart - lets it run: that is how a run gets cancelled), 9 reparse to the empty pattern,
///   A restart(false), B restart(true) (a new stream: new injector, item numbering starts again).
/// `lens`: bit k = item k of a stream has a two-character text. `RESERVED`: indices reserved at the
/// start and never published.
pub fn scored<const ITEMS: usize, const RESERVED: usize>(lens: u32, script: u64, dbg: u32) {
    *parking_lot::VERIF_TIMED_SEQ.get() = 0;
    // one worker thread: the parallel scan is one chunk in index order (chunk plans are a separate instance parameter)
    *rayon::VERIF_DETERMINISTIC.get() = true;
    // dbg & 32: the parallel scan runs as two chunks, split after the first index, the RIGHT chunk first
    // (with two pool threads the order in which chunks record their in-flight slots is arbitrary)
    *rayon::VERIF_CHUNK_PLAN.get() = if dbg & 32 != 0 { Some((1, true)) } else { None };
    unsafe {
        *std::ptr::addr_of_mut!(NOTIFY) = 0;
        *std::ptr::addr_of_mut!(DONE) = [false; MAXI];
    }
    let mut n: Nucleo<u32> = Nucleo::new(Config::DEFAULT, notify_fn(), Some(1), 1);
    let mut inj = n.injector();
    let mut total = 0usize;
    if RESERVED > 0 {
        inj.extend(Never::<RESERVED>, fill_t);
        total = RESERVED;
    }
    fn push_one(inj: &crate::Injector<u32>, total: &mut usize, lens: u32, all_match: usize) {
        let k = *total;
        let len = 1 + ((lens >> k) & 1) as usize;
        let c0 = sym_ab();
        let c1 = if len == 2 { sym_ab() } else { b'a' };
        if all_match != 0 {
            // entries mode: every item matches the (first) pattern of the script, so that the match list has a
            // concrete length (no truncation of placeholders) and its entries can be read back
            assume(table(all_match, text_id(len, c0, c1)).is_some());
        }
        unsafe { (*std::ptr::addr_of_mut!(TXT))[k] = (len, c0, c1) };
        let idx = inj.push(100 + k as u32, fill_t);
        check!(idx as usize == k, "C08 pushes receive consecutive indices");
        unsafe { (*std::ptr::addr_of_mut!(DONE))[k] = true };
        *total += 1;
    }
    let all_match = if dbg & 16 != 0 { (script % 16) as usize } else { 0 };
    let mut k = 0;
    while k < ITEMS {
        push_one(&inj, &mut total, lens, all_match);
        k += 1;
    }
    let mut pid = 0usize;
    let mut sc = script;
    let mut settled = 0;
    let mut restarts = 0;
    while sc != 0 {
        let d = sc % 16;
        sc /= 16;
        match d {
            1..=4 => {
                pid = d as usize;
                n.pattern.reparse(0, PATS[pid], CaseMatching::Respect, Normalization::Never, false);
            }
            5 => {
                pid = 2;
                n.pattern.reparse(0, PATS[2], CaseMatching::Respect, Normalization::Never, true);
            }
            6 => push_one(&inj, &mut total, lens, all_match),
            8 => {
                // the timed lock attempt of this tick gives up (outcome 1): the run it started stays pending
                *parking_lot::VERIF_TIMED_SEQ.get() = 1;
                let st = n.tick(10);
                check!(st.running, "C19 a tick whose timed lock attempt gave up reports 'running'");
                cover!(rayon::verif_pending(), "INFO a run is left pending");
            }
            9 => {
                pid = 0;
                n.pattern.reparse(0, "", CaseMatching::Respect, Normalization::Never, false);
            }
            10 | 11 => {
                let clear = d == 11;
                restarts += 1;
                n.restart(clear);
                if clear {
                    check!(n.snapshot().item_count() == 0 && n.snapshot().matched_item_count() == 0, "C12 restart(true) empties the snapshot immediately");
                }
                // the old injector keeps accepting items, without any effect on the matcher
                let _ = inj.push(999, fill_t0);
                std::mem::forget(std::mem::replace(&mut inj, n.injector()));
                total = 0;
                unsafe { *std::ptr::addr_of_mut!(DONE) = [false; MAXI] };
            }
            _ => {
                let st = n.tick(10);
                if st.running {
                    let _ = rayon::verif_run_pending();
                    let st2 = n.tick(10);
                    if RESERVED == 0 {
                        // (with a writer in flight - reserved, unpublished indices - the matcher keeps rescanning and
                        // reports 'running' until the writer publishes: nothing to assert about `running` then)
                        check!(!st2.running, "C19 a tick after the run finished and without new items or edits reports 'not running'");
                    }
                    check!(st2.changed, "C19 the tick that collects a finished run reports 'changed'");
                }
                check!(n.snapshot().pattern().column_pattern(0).atoms == n.pattern.column_pattern(0).atoms, "C19 a tick that reports 'not running' leaves the snapshot pattern equal to the matcher's current pattern");
                check_scored(&n, pid, total, dbg, restarts > 0);
                settled += 1;
            }
        }
    }
    cover!(settled > 0 && n.snapshot().matched_item_count() > 1, "INFO snapshot with at least two matches");
    cover!(settled > 0 && n.snapshot().matched_item_count() == 0, "INFO snapshot without matches");
    let _ = rayon::verif_run_pending();
    std::mem::forget(inj);
    std::mem::forget(n);
}

fn fill_t0(_: &u32, cols: &mut [Utf32String]) {
    cols[0] = Utf32String::Ascii("a".into());
}

macro_rules! harnesses_scored {
    ($( $name:ident [$unwind:literal] => $body:expr ;)*) => {
        $(
            #[cfg(kani)]
            #[kani::proof]
            #[kani::unwind($unwind)]
            #[kani::stub(crate::pattern::MultiPattern::score, crate::verif::scored_h::stub_multi_score)]
            fn $name() { $body; kani::cover!(true, "END harness end reachable"); }
        )*
        #[cfg(not(kani))]
        pub fn lookup(name: &str) -> Option<fn()> {
            $( if name == stringify!($name) { fn f() { $body } return Some(f); } )*
            None
        }
    };
}

include!(concat!(env!("NUCLEO_VERIF_GEN"), "/nucleo_scored.rs"));
