// C18: the cancellable parallel sort returns a sorted permutation.
// Elements are symbolic bytes ordered by a strict weak order WITH ties (key = byte >> 2); the
// permutation claim is checked with a symbolic probe value (count in == count out), sortedness
// pairwise on keys. `rayon::join` is the shim's (both closures, solver-chosen order). The cancel
// flag is raised by the comparator when a symbolic countdown hits zero.
use super::common::*;
use super::sym::{self, assume, check, cover};
use crate::par_sort::{par_quicksort, verif_access as ps};
use std::sync::atomic::{AtomicBool, AtomicU32, Ordering};

fn key(b: u8) -> u8 {
    b >> 2
}

fn less(a: &u8, b: &u8) -> bool {
    key(*a) < key(*b)
}

fn count<const L: usize>(v: &[u8; L], p: u8) -> usize {
    let mut c = 0;
    let mut i = 0;
    while i < L {
        if v[i] == p {
            c += 1;
        }
        i += 1;
    }
    c
}

fn sorted<const L: usize>(v: &[u8; L]) -> bool {
    let mut i = 1;
    while i < L {
        if key(v[i - 1]) > key(v[i]) {
            return false;
        }
        i += 1;
    }
    true
}

fn sym_arr<const L: usize>() -> [u8; L] {
    let mut a = [0u8; L];
    let mut i = 0;
    while i < L {
        a[i] = sym::u8_();
        i += 1;
    }
    a
}

/// the public entry, cancel flag never raised
pub fn quicksort_uncancelled<const L: usize>() {
    let orig: [u8; L] = sym_arr();
    let mut v = orig;
    let probe = sym::u8_();
    let cancel = AtomicBool::new(false);
    let c = par_quicksort(&mut v, less, &cancel);
    check!(!c, "C18 the sort reports 'not cancelled' when the flag was never raised");
    check!(sorted(&v), "C18 the slice is in non-decreasing order under the given strict weak order");
    check!(count(&v, probe) == count(&orig, probe), "C18 the slice is a permutation of its input");
    cover!(orig != v, "input was not already sorted");
}

/// the flag is raised by the comparator at a symbolic moment (countdown of comparisons)
pub fn quicksort_cancelled<const L: usize>() {
    let orig: [u8; L] = sym_arr();
    let mut v = orig;
    let probe = sym::u8_();
    let cancel = AtomicBool::new(sym::bool_());
    let countdown = AtomicU32::new(sym::u8_() as u32);
    let cmp = |a: &u8, b: &u8| {
        let c = countdown.load(Ordering::Relaxed);
        if c == 1 {
            cancel.store(true, Ordering::Relaxed);
        }
        if c > 0 {
            countdown.store(c - 1, Ordering::Relaxed);
        }
        key(*a) < key(*b)
    };
    let c = par_quicksort(&mut v, cmp, &cancel);
    check!(count(&v, probe) == count(&orig, probe), "C18 the slice is a permutation of its input whether or not the sort was cancelled");
    if !c {
        check!(sorted(&v), "C18 a sort that reports 'not cancelled' leaves the slice sorted");
    }
    if !cancel.load(Ordering::Relaxed) {
        check!(!c, "C18 'cancelled' is only reported if the flag was raised");
    }
    cover!(c, "cancellation reported");
    cover!(!c && cancel.load(Ordering::Relaxed), "flag raised too late to be noticed");
}

/// Concrete arrangement and cancel moment - under the SHRUNK constants, where slices of 4 and more
/// elements are partitioned and both halves go through `rayon::join` (solver-chosen order). With concrete
/// keys every recursive call works on a slice of concrete length, so the composite is affordable; what
/// the solver quantifies over is the order in which the two halves of every join run.
pub fn quicksort_cancelled_concrete<const L: usize>(perm: u32, k: u32) {
    let base: [u8; 8] = match perm {
        0 => [20, 4, 16, 0, 12, 8, 28, 24],
        1 => [0, 4, 8, 12, 16, 20, 24, 28],
        2 => [28, 24, 20, 16, 12, 8, 4, 0],
        3 => [8, 9, 0, 1, 4, 5, 12, 13],
        _ => [12, 0, 20, 4, 28, 8, 24, 16],
    };
    let mut orig = [0u8; L];
    let mut i = 0;
    while i < L {
        orig[i] = base[i % 8];
        i += 1;
    }
    let mut v = orig;
    let cancel = AtomicBool::new(false);
    // (the cancel moment is concrete per instance as well: a symbolic moment makes the lengths of the
    // recursive calls symbolic again after the first merge point - measured: > 12 min at length 5)
    let countdown = AtomicU32::new(k);
    let cmp = |a: &u8, b: &u8| {
        let c = countdown.load(Ordering::Relaxed);
        if c == 1 {
            cancel.store(true, Ordering::Relaxed);
        }
        if c > 0 {
            countdown.store(c - 1, Ordering::Relaxed);
        }
        key(*a) < key(*b)
    };
    let c = par_quicksort(&mut v, cmp, &cancel);
    let mut p = 0;
    while p < L {
        check!(count(&v, orig[p]) == count(&orig, orig[p]), "C18 the slice is a permutation of its input whether or not the sort was cancelled");
        p += 1;
    }
    if !c {
        check!(sorted(&v), "C18 a sort that reports 'not cancelled' leaves the slice sorted");
    }
    if !cancel.load(Ordering::Relaxed) {
        check!(!c, "C18 'cancelled' is only reported if the flag was raised");
    }
    cover!(c, "cancellation reported");
    cover!(!c && cancel.load(Ordering::Relaxed), "flag raised too late to be noticed");
}

/// `recurse` entered with a symbolic imbalance budget: limit == 0 forces the heapsort fallback,
/// small limits force pattern breaking
pub fn recurse_limit<const L: usize>() {
    let orig: [u8; L] = sym_arr();
    let mut v = orig;
    let probe = sym::u8_();
    let limit = sym::u8_() as u32;
    assume(limit <= 4);
    let cancel = AtomicBool::new(false);
    let c = ps::recurse(&mut v, &less, limit, &cancel);
    check!(!c, "C18 the sort reports 'not cancelled' when the flag was never raised (recurse)");
    check!(sorted(&v), "C18 the slice is in non-decreasing order (recurse with any imbalance budget)");
    check!(count(&v, probe) == count(&orig, probe), "C18 the slice is a permutation of its input (recurse with any imbalance budget)");
    cover!(limit == 0, "heapsort fallback budget");
}

pub fn heapsort_unit<const L: usize>() {
    let orig: [u8; L] = sym_arr();
    let mut v = orig;
    let probe = sym::u8_();
    ps::heapsort(&mut v, &less);
    check!(sorted(&v), "C18 heapsort fallback sorts");
    check!(count(&v, probe) == count(&orig, probe), "C18 heapsort fallback permutes");
}

pub fn insertion_unit<const L: usize>() {
    let orig: [u8; L] = sym_arr();
    let mut v = orig;
    let probe = sym::u8_();
    ps::insertion_sort(&mut v, &less);
    check!(sorted(&v), "C18 insertion sort sorts");
    check!(count(&v, probe) == count(&orig, probe), "C18 insertion sort permutes");
}

pub fn partial_insertion_unit<const L: usize>() {
    let orig: [u8; L] = sym_arr();
    let mut v = orig;
    let probe = sym::u8_();
    let done = ps::partial_insertion_sort(&mut v, &less);
    if done {
        check!(sorted(&v), "C18 partial insertion sort only claims 'sorted' for a sorted slice");
    }
    check!(count(&v, probe) == count(&orig, probe), "C18 partial insertion sort permutes");
    cover!(done, "claims sorted");
    cover!(!done, "gives up");
}

pub fn partition_unit<const L: usize>() {
    let orig: [u8; L] = sym_arr();
    let mut v = orig;
    let probe = sym::u8_();
    let pivot = sym::usize_();
    assume(pivot < L);
    let pv = orig[pivot];
    let (mid, was) = ps::partition(&mut v, pivot, &less);
    check!(mid < L, "C18 partition returns an index inside the slice");
    if mid < L {
        check!(key(v[mid]) == key(pv), "C18 partition puts the pivot at the returned index");
        let mut i = 0;
        while i < L {
            if i < mid {
                check!(key(v[i]) < key(pv), "C18 partition: everything left of the pivot is smaller");
            }
            if i > mid {
                check!(key(v[i]) >= key(pv), "C18 partition: everything right of the pivot is not smaller");
            }
            i += 1;
        }
    }
    check!(count(&v, probe) == count(&orig, probe), "C18 partition permutes");
    cover!(was, "already partitioned");
    cover!(!was, "not already partitioned");
}

pub fn partition_equal_unit<const L: usize>() {
    let orig: [u8; L] = sym_arr();
    let mut v = orig;
    let probe = sym::u8_();
    let pivot = sym::usize_();
    assume(pivot < L);
    let pv = orig[pivot];
    // precondition of partition_equal: no element is smaller than the pivot
    let mut i = 0;
    while i < L {
        assume(key(orig[i]) >= key(pv));
        i += 1;
    }
    let mid = ps::partition_equal(&mut v, pivot, &less);
    check!(mid >= 1 && mid <= L, "C18 partition_equal returns a count inside the slice");
    let mut i = 0;
    while i < L {
        if i < mid {
            check!(key(v[i]) == key(pv), "C18 partition_equal: the first part equals the pivot");
        } else {
            check!(key(v[i]) > key(pv), "C18 partition_equal: the rest is greater than the pivot");
        }
        i += 1;
    }
    check!(count(&v, probe) == count(&orig, probe), "C18 partition_equal permutes");
}

pub fn choose_pivot_unit<const L: usize>() {
    let orig: [u8; L] = sym_arr();
    let mut v = orig;
    let probe = sym::u8_();
    let (p, likely_sorted) = ps::choose_pivot(&mut v, &less);
    check!(p < L, "C18 choose_pivot returns an index inside the slice");
    check!(count(&v, probe) == count(&orig, probe), "C18 choose_pivot permutes");
    cover!(likely_sorted, "likely sorted");
}

pub fn break_patterns_unit<const L: usize>() {
    let orig: [u8; L] = sym_arr();
    let mut v = orig;
    let probe = sym::u8_();
    ps::break_patterns(&mut v);
    check!(count(&v, probe) == count(&orig, probe), "C18 break_patterns permutes");
}

include!(concat!(env!("NUCLEO_VERIF_GEN"), "/nucleo_sort.rs"));
