// In-crate verification harnesses for the `nucleo` crate (included by the guarded hook in
// src/lib.rs). rayon and parking_lot are the shims of /verif/shims under Kani.
#[macro_use]
#[allow(dead_code, unused_imports, unused_macros, unused_variables, unused_assignments, unexpected_cfgs)]
pub(crate) mod sym {
    include!(concat!(env!("NUCLEO_VERIF_DIR"), "/matcher/sym.rs"));
}
#[allow(dead_code, unused_imports, unused_macros, unused_variables, unused_assignments, unexpected_cfgs)]
pub(crate) mod common {
    include!(concat!(env!("NUCLEO_VERIF_DIR"), "/nucleo/common.rs"));
}
#[allow(dead_code, unused_imports, unused_macros, unused_variables, unused_assignments, unexpected_cfgs)]
pub(crate) mod sort_h {
    include!(concat!(env!("NUCLEO_VERIF_DIR"), "/nucleo/sort_h.rs"));
}
#[allow(dead_code, unused_imports, unused_macros, unused_variables, unused_assignments, unexpected_cfgs)]
pub(crate) mod boxcar_h {
    include!(concat!(env!("NUCLEO_VERIF_DIR"), "/nucleo/boxcar_h.rs"));
}
#[cfg(kani)]
#[allow(dead_code, unused_imports, unused_macros, unused_variables, unused_assignments, unexpected_cfgs)]
pub(crate) mod multi_h {
    include!(concat!(env!("NUCLEO_VERIF_DIR"), "/nucleo/multi_h.rs"));
}
// needs the shims' harness API (rayon::verif_run_pending, parking_lot::VERIF_TIMED_SEQ): compiled under
// Kani and in the native replay build that is linked against the shims (--cfg nucleo_verif_shims)
#[cfg(any(kani, nucleo_verif_shims))]
#[allow(dead_code, unused_imports, unused_macros, unused_variables, unused_assignments, unexpected_cfgs)]
pub(crate) mod proto_h {
    include!(concat!(env!("NUCLEO_VERIF_DIR"), "/nucleo/proto_h.rs"));
}
#[cfg(any(kani, nucleo_verif_shims))]
#[allow(dead_code, unused_imports, unused_macros, unused_variables, unused_assignments, unexpected_cfgs)]
pub(crate) mod scored_h {
    include!(concat!(env!("NUCLEO_VERIF_DIR"), "/nucleo/scored_h.rs"));
}
#[cfg(not(kani))]
#[allow(dead_code, unused_imports, unused_macros, unused_variables, unused_assignments, unexpected_cfgs)]
pub(crate) mod miri_h {
    include!(concat!(env!("NUCLEO_VERIF_DIR"), "/nucleo/miri_h.rs"));
}
#[cfg(not(kani))]
#[allow(dead_code, unused_imports, unused_macros, unused_variables, unused_assignments, unexpected_cfgs)]
pub(crate) mod replay {
    include!(concat!(env!("NUCLEO_VERIF_DIR"), "/nucleo/replay.rs"));
}
