/// Declares a family of harnesses (see matcher/common.rs).
macro_rules! harnesses {
    ($( $name:ident [$unwind:literal] => $body:expr ;)*) => {
        $(
            #[cfg(kani)]
            #[kani::proof]
            #[kani::unwind($unwind)]
            #[kani::stub(std::vec::Vec::push, crate::verif::common::push_no_grow)]
            fn $name() { $body; kani::cover!(true, "END harness end reachable"); }
        )*
        #[cfg(not(kani))]
        pub fn lookup(name: &str) -> Option<fn()> {
            $( if name == stringify!($name) { fn f() { $body } return Some(f); } )*
            None
        }
    };
}
pub(crate) use harnesses;

/// same family macro without the Vec::push stub (for code that legitimately grows vectors)
macro_rules! harnesses_nostub {
    ($( $name:ident [$unwind:literal] => $body:expr ;)*) => {
        $(
            #[cfg(kani)]
            #[kani::proof]
            #[kani::unwind($unwind)]
            fn $name() { $body; kani::cover!(true, "END harness end reachable"); }
        )*
        #[cfg(not(kani))]
        pub fn lookup(name: &str) -> Option<fn()> {
            $( if name == stringify!($name) { fn f() { $body } return Some(f); } )*
            None
        }
    };
}
pub(crate) use harnesses_nostub;

#[cfg(kani)]
pub fn push_no_grow<T, A: std::alloc::Allocator>(v: &mut Vec<T, A>, value: T) {
    let len = v.len();
    assert!(len < v.capacity(), "ENGINE Vec::push stub: growth not expected (harness reserved too little)");
    unsafe {
        std::ptr::write(v.as_mut_ptr().add(len), value);
        v.set_len(len + 1);
    }
}

/// scored_h.rs: patterns of column 0 (id 0 is the empty pattern) and the texts an item can hold
pub const PATS: [&str; 5] = ["", "a", "ab", "b", "!a"];
pub const TEXTS: [&str; 6] = ["a", "b", "aa", "ab", "ba", "bb"];
