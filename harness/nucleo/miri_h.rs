// Confirmation of a data race found by the axiomatic model (C09) with Miri's data-race detector:
// `cargo +nightly miri test -p nucleo --lib verif::miri_h` on the unpatched tree (real rayon /
// parking_lot are only compiled, not run). One writer thread pushes items across a bucket
// boundary (so that it allocates and installs a new bucket), the main thread looks indices up
// through the reader named in NUCLEO_VERIF_MIRI_READER.
use crate::boxcar;
use std::sync::Arc;

fn writer_and_reader(reader: &str) {
    let v: Arc<boxcar::Vec<u32>> = Arc::new(boxcar::Vec::with_capacity(0, 1));
    // two writers (index reservation interleaves, so a reader can find a published item behind a
    // reserved one); together they cross several bucket boundaries
    let n: u32 = 3 * boxcar::verif_access::SKIP;
    let mut ts = Vec::new();
    for _w in 0..2 {
        let w = v.clone();
        ts.push(std::thread::spawn(move || {
            for i in 0..n / 2 {
                w.push(i, |_, _| {});
            }
        }));
    }
    let mut seen = 0u64;
    for _round in 0..40 {
        match reader {
            "get" => {
                // highest indices first: the first flags looked at in a freshly installed bucket are those
                // of entries nobody has published yet (reading a published flag would synchronise)
                for i in (0..n + boxcar::verif_access::SKIP).rev() {
                    if let Some(it) = v.get(i) {
                        seen += *it.data as u64;
                    }
                }
            }
            "Iter::next" => {
                let it = unsafe { v.snapshot(0) };
                for (_i, item) in it {
                    if let Some(item) = item {
                        seen += *item.data as u64;
                    }
                }
            }
            _ => {
                // get_unchecked requires the caller to have observed the item: first through get
                for i in (0..n + boxcar::verif_access::SKIP).rev() {
                    if v.get(i).is_some() {
                        let it = unsafe { v.get_unchecked(i) };
                        seen += *it.data as u64;
                    }
                }
            }
        }
        std::thread::yield_now();
    }
    for t in ts {
        t.join().unwrap();
    }
    assert!(seen < u64::MAX);
}

include!(concat!(env!("NUCLEO_VERIF_GEN"), "/miri_reader.rs"));

#[cfg(test)]
#[test]
fn race_probe() {
    // the reader is a generated constant (gen/miri_reader.rs, written by the driver before every Miri run):
    // Miri does not hand the host environment to the interpreted program
    let reader = MIRI_READER.to_string();
    eprintln!("MIRI-READER {reader}");
    writer_and_reader(&reader);
}
