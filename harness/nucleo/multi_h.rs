// C15, multi-column part: MultiPattern::score is the conjunction / sum over columns, each column
// pattern against ITS OWN haystack column. nucleo_matcher's Pattern::score is replaced by a stub
// returning a symbolic table value keyed by (column pattern, haystack column).
use super::common::*;
use super::sym::{self, assume, check, cover};
use crate::pattern::MultiPattern;
use crate::{Config, Matcher, Utf32Str, Utf32String};
use nucleo_matcher::pattern::{CaseMatching, Normalization, Pattern};

const COLS: usize = 3;
static mut TAB: [[Option<u32>; COLS]; COLS] = [[None; COLS]; COLS];
static mut CALLS: [[u8; COLS]; COLS] = [[0; COLS]; COLS];

/// column pattern i is the text ('a' + i) (or empty), haystack column j is the text ('p' + j)
pub fn stub_pattern_score(p: &Pattern, haystack: Utf32Str<'_>, _m: &mut Matcher) -> Option<u32> {
    if p.atoms.is_empty() {
        // documented: an empty pattern matches everything with score zero
        return Some(0);
    }
    let i = (p.atoms[0].needle_text().get(0) as u32 - 'a' as u32) as usize;
    let j = (haystack.get(0) as u32 - 'p' as u32) as usize;
    assert!(i < COLS && j < COLS, "ENGINE multi stub: unexpected pattern / haystack");
    unsafe {
        (*std::ptr::addr_of_mut!(CALLS))[i][j] += 1;
        (*std::ptr::addr_of!(TAB))[i][j]
    }
}

/// `mask` bit i = column i has a non-empty pattern (concrete per instance: the texts are parsed
/// by the real parser, which must stay concrete)
pub fn multi_compose(mask: u8) {
    let mut mp = MultiPattern::new(COLS);
    let texts = ["a", "b", "c"];
    let mut i = 0;
    while i < COLS {
        if (mask >> i) & 1 == 1 {
            mp.reparse(i, texts[i], CaseMatching::Respect, Normalization::Never, false);
        }
        let mut j = 0;
        while j < COLS {
            let v = if sym::bool_() { Some(sym::u16_() as u32) } else { None };
            unsafe {
                (*std::ptr::addr_of_mut!(TAB))[i][j] = v;
                (*std::ptr::addr_of_mut!(CALLS))[i][j] = 0;
            }
            j += 1;
        }
        i += 1;
    }
    let hay = [Utf32String::from("p"), Utf32String::from("q"), Utf32String::from("r")];
    let mut m = Matcher::new(Config::DEFAULT);
    let r = mp.score(&hay, &mut m);
    let mut all = true;
    let mut sum = 0u32;
    let mut i = 0;
    while i < COLS {
        if (mask >> i) & 1 == 1 {
            match unsafe { (*std::ptr::addr_of!(TAB))[i][i] } {
                Some(x) => sum += x,
                None => all = false,
            }
        }
        i += 1;
    }
    check!(r.is_some() == all, "C15 a multi-column pattern matches exactly when every column pattern matches its own column");
    if let Some(x) = r {
        if all {
            check!(x == sum, "C15 the multi-column score is the sum of the column scores");
        }
    }
    check!(mp.is_empty() == (mask == 0), "C15 is_empty is 'no column has atoms'");
    cover!(r.is_some() && mask != 0, "multi-column pattern matched");
    cover!(r.is_none(), "multi-column pattern rejected");
    std::mem::forget((mp, hay, m));
}

macro_rules! harnesses_multi {
    ($( $name:ident [$unwind:literal] => $body:expr ;)*) => {
        $(
            #[cfg(kani)]
            #[kani::proof]
            #[kani::unwind($unwind)]
            #[kani::stub(nucleo_matcher::pattern::Pattern::score, crate::verif::multi_h::stub_pattern_score)]
            fn $name() { $body; kani::cover!(true, "END harness end reachable"); }
        )*
    };
}

#[cfg(kani)]
harnesses_multi! {
    multi_compose_m0 [8] => multi_compose(0);
    multi_compose_m2 [8] => multi_compose(2);
    multi_compose_m5 [8] => multi_compose(5);
    multi_compose_m6 [8] => multi_compose(6);
    multi_compose_m7 [8] => multi_compose(7);
}
