// Native replay (real rayon / parking_lot, no Kani). See matcher/replay.rs.
use super::sym;

pub fn lookup(name: &str) -> Option<fn()> {
    let r = None
        .or_else(|| super::sort_h::lookup(name))
        .or_else(|| super::boxcar_h::lookup(name));
    #[cfg(nucleo_verif_shims)]
    let r = r
        .or_else(|| super::proto_h::lookup(name))
        .or_else(|| super::scored_h::lookup(name))
        .or_else(|| super::proto_h::probes::lookup(name));
    r
}

#[cfg(test)]
#[test]
fn run() {
    let path = std::env::var("NUCLEO_VERIF_REPLAY").expect("NUCLEO_VERIF_REPLAY not set");
    let text = std::fs::read_to_string(&path).expect("cannot read replay file");
    let mut lines = text.lines();
    let name = lines.next().expect("empty replay file").trim().to_string();
    let tape: Vec<Vec<u8>> = lines
        .filter(|l| !l.trim().is_empty())
        .map(|l| l.split_whitespace().map(|b| b.parse::<u8>().expect("bad byte")).collect())
        .collect();
    let f = lookup(&name).unwrap_or_else(|| panic!("REPLAY-UNKNOWN-HARNESS {name}"));
    sym::tape::load(tape);
    let res = std::panic::catch_unwind(f);
    let failed = sym::FAILED.with(|c| c.get());
    match res {
        Err(_) => println!("REPLAY-RESULT panic (a panic inside the code under test)"),
        Ok(()) if failed > 0 => println!("REPLAY-RESULT violated {failed}"),
        Ok(()) => println!("REPLAY-RESULT clean"),
    }
}

/// The score table of scored_h.rs: the real `MultiPattern::score` of the current tree on every
/// (pattern, text) pair. Printed here, turned into gen/score_table.rs by the driver.
#[cfg(test)]
#[test]
fn score_table() {
    use super::common::{PATS, TEXTS};
    use crate::pattern::{CaseMatching, MultiPattern, Normalization};
    let mut m = crate::Matcher::new(crate::Config::DEFAULT);
    for (pid, pat) in PATS.iter().enumerate() {
        let mut mp = MultiPattern::new(1);
        if !pat.is_empty() {
            mp.reparse(0, pat, CaseMatching::Respect, Normalization::Never, false);
        }
        for (tid, t) in TEXTS.iter().enumerate() {
            let hay = [crate::Utf32String::from(*t)];
            let r = mp.score(&hay, &mut m);
            println!("SCORE-TABLE {pid} {tid} {}", r.map_or(-1i64, |x| x as i64));
        }
    }
}
