// C08 (sequential contracts + index arithmetic) and C11 (exactly-once drop) on the real
// `boxcar::Vec`. Interleavings of the vector's atomics are NOT covered here (Kani has no threads).
use super::common::*;
use super::sym::{self, assume, check, cover};
use crate::boxcar::{self, verif_access as bx};
use crate::Utf32String;

// ---------------------------------------------------------------------------------------------
// Location::of for every u32 index (the constants are whatever the build uses: real SKIP = 32
// without nucleo_verif_small, 2 with it)
// ---------------------------------------------------------------------------------------------
pub fn location_all() {
    let i = sym::u32_();
    assume(i <= bx::MAX_ENTRIES);
    let (b, len, e) = bx::location(i);
    check!(b < bx::BUCKETS, "C08 every index maps to an existing bucket");
    check!(len == bx::bucket_len(b) && len.is_power_of_two() && len >= bx::SKIP, "C08 the bucket length is the documented power of two");
    check!(e < len, "C08 the entry index is inside its bucket");
    // buckets are laid out back to back: bucket b starts at index len(b) - SKIP
    check!((len - bx::SKIP) as u64 + e as u64 == i as u64, "C08 index -> (bucket, entry) is the back-to-back layout (hence injective and gap-free)");
    let j = sym::u32_();
    assume(j <= bx::MAX_ENTRIES && j > i);
    let (b2, _, e2) = bx::location(j);
    check!(b2 > b || (b2 == b && e2 > e), "C08 index -> (bucket, entry) is strictly monotone");
    cover!(b == bx::BUCKETS - 1, "last bucket");
    cover!(b == 0, "first bucket");
}

// ---------------------------------------------------------------------------------------------
// items that count their drops
// ---------------------------------------------------------------------------------------------
pub const MAXID: usize = 16;
static mut DROPS: [u8; MAXID] = [0; MAXID];

pub struct Item {
    id: u8,
    payload: u32,
}
impl Drop for Item {
    fn drop(&mut self) {
        unsafe {
            let d = &mut *std::ptr::addr_of_mut!(DROPS);
            d[self.id as usize] = d[self.id as usize].saturating_add(1);
        }
    }
}
fn drops(id: usize) -> u8 {
    unsafe { (*std::ptr::addr_of!(DROPS))[id] }
}
fn reset_drops() {
    unsafe { *std::ptr::addr_of_mut!(DROPS) = [0; MAXID] }
}

/// ExactSizeIterator that reports `reported` items but yields `yielded`
pub struct Lying {
    reported: usize,
    yielded: usize,
    next: usize,
    first_id: u8,
    payloads: [u32; MAXID],
}
impl Iterator for Lying {
    type Item = Item;
    fn next(&mut self) -> Option<Item> {
        if self.next >= self.yielded {
            return None;
        }
        let k = self.next;
        self.next += 1;
        Some(Item { id: self.first_id + k as u8, payload: self.payloads[k] })
    }
}
impl ExactSizeIterator for Lying {
    fn len(&self) -> usize {
        self.reported
    }
}

/// One history: with_capacity(CAP), PRE pushes, one extend (REP reported, YLD yielded <= REP),
/// POST pushes, symbolic lookups, drop. Item payloads and the looked-up index are symbolic.
pub fn history<const CAP: u32, const PRE: usize, const REP: usize, const YLD: usize, const POST: usize>() {
    reset_drops();
    let v: boxcar::Vec<Item> = boxcar::Vec::with_capacity(CAP, 1);
    let mut payload = [0u32; MAXID];
    let mut k = 0;
    while k < PRE + YLD + POST && k < MAXID {
        payload[k] = sym::u32_();
        k += 1;
    }
    let fill = |_: &Item, cols: &mut [Utf32String]| {
        cols[0] = Utf32String::default();
    };
    // ghost: index -> id of the item published there (or none)
    let mut published: [Option<u8>; MAXID] = [None; MAXID];
    let mut next_id = 0u8;
    let mut k = 0;
    while k < PRE {
        let idx = v.push(Item { id: next_id, payload: payload[next_id as usize] }, fill);
        check!(idx as usize == k, "C08 pushes receive consecutive, gap-free indices");
        published[idx as usize] = Some(next_id);
        next_id += 1;
        k += 1;
    }
    #[allow(unused_mut)]
    let mut over = false;
    if REP > 0 || YLD > 0 {
        let mut pl = [0u32; MAXID];
        let mut j = 0;
        while j < YLD {
            pl[j] = payload[next_id as usize + j];
            j += 1;
        }
        // an iterator that yields MORE than it reported must be stopped by the documented
        // assertion. Under Kani (no unwinding) the driver expects exactly that assertion to be
        // violated for these instances; natively the panic is caught and checked here.
        #[cfg(kani)]
        v.extend(
            Lying { reported: REP, yielded: YLD, next: 0, first_id: next_id, payloads: pl },
            fill,
        );
        #[cfg(not(kani))]
        {
            let r = std::panic::catch_unwind(std::panic::AssertUnwindSafe(|| {
                v.extend(
                    Lying { reported: REP, yielded: YLD, next: 0, first_id: next_id, payloads: pl },
                    fill,
                )
            }));
            check!(r.is_err() == (YLD > REP), "C08 an iterator that yields more items than it reported is stopped by the documented assertion (and only then)");
            if YLD > REP {
                // the surplus item must not have been written anywhere; it was dropped by the unwinding
                check!(v.get((PRE + REP) as u32).is_none(), "C08 a lookup returns nothing for an index no completed push was assigned");
                over = true;
            }
        }
        if over {
            // REP items were written, the first surplus item was created and rejected
            let mut j = 0;
            while j < REP {
                published[PRE + j] = Some(next_id + j as u8);
                j += 1;
            }
            next_id += REP as u8 + 1;
        }
    }
    if !over && (REP > 0 || YLD > 0) {
        let mut j = 0;
        while j < YLD {
            published[PRE + j] = Some(next_id + j as u8);
            j += 1;
        }
        next_id += YLD as u8;
    }
    let mut k = 0;
    while k < POST {
        let idx = v.push(Item { id: next_id, payload: payload[next_id as usize] }, fill);
        check!(idx as usize == PRE + REP + k, "C08 a push after a batch receives the index after the whole reserved batch");
        published[idx as usize] = Some(next_id);
        next_id += 1;
        k += 1;
    }
    check!(v.count() as usize == PRE + REP + POST, "C08 the injected-item count is the number of reserved indices");
    // lookups with a symbolic index (including indices no push was assigned)
    let q = sym::u32_();
    assume((q as usize) < PRE + REP + POST + 3);
    let got = v.get(q);
    match published.get(q as usize).copied().flatten() {
        Some(id) => {
            check!(got.is_some(), "C08 a completed push is visible to every later lookup of its index");
            if let Some(it) = got {
                check!(it.data.id == id && it.data.payload == payload[id as usize], "C08 a lookup returns exactly the value that was pushed at that index");
                check!(it.matcher_columns.len() == 1, "C08 a lookup returns the item's matcher columns");
            }
        }
        None => {
            check!(got.is_none(), "C08 a lookup returns nothing for an index no completed push was assigned");
        }
    }
    let total = next_id as usize;
    drop(v);
    let probe = sym::usize_();
    assume(probe < MAXID);
    if probe < total {
        check!(drops(probe) == 1, "C11 every injected item is dropped exactly once when the vector goes away");
    } else {
        check!(drops(probe) == 0, "C11 nothing that was not injected is dropped");
    }
    // natively (replay of an instance that is expected to end in the documented assertion) every
    // item is looked at, not only the probed one
    #[cfg(not(kani))]
    {
        let mut p = 0;
        while p < MAXID {
            if p < total {
                check!(drops(p) == 1, "C11 every injected item is dropped exactly once when the vector goes away");
            } else {
                check!(drops(p) == 0, "C11 nothing that was not injected is dropped");
            }
            p += 1;
        }
    }
    cover!(total > 0, "at least one item was injected");
}

/// Native confirmation for the MIR-level unwinding check (lib/mirdrop.py): a fill callback that panics for
/// one item of a push / an extend; afterwards every item that was created must have been dropped exactly once.
/// NUCLEO_VERIF_PANIC = "push" or "extend:<k>" (the callback panics for the k-th item of a batch of three).
#[cfg(all(test, not(kani)))]
#[test]
fn panic_probe() {
    let mode = std::env::var("NUCLEO_VERIF_PANIC").unwrap_or_else(|_| "push".to_string());
    reset_drops();
    let v: boxcar::Vec<Item> = boxcar::Vec::with_capacity(0, 1);
    let ok_fill = |_: &Item, cols: &mut [Utf32String]| {
        cols[0] = Utf32String::default();
    };
    v.push(Item { id: 0, payload: 0 }, ok_fill);
    let mut created = 1usize;
    if mode == "push" {
        let r = std::panic::catch_unwind(std::panic::AssertUnwindSafe(|| {
            v.push(Item { id: 1, payload: 1 }, |_: &Item, _: &mut [Utf32String]| panic!("fill callback"));
        }));
        assert!(r.is_err());
        created = 2;
    } else {
        let k: u8 = mode.split(':').nth(1).and_then(|x| x.parse().ok()).unwrap_or(0);
        let r = std::panic::catch_unwind(std::panic::AssertUnwindSafe(|| {
            v.extend(
                Lying { reported: 3, yielded: 3, next: 0, first_id: 1, payloads: [0; MAXID] },
                |it: &Item, cols: &mut [Utf32String]| {
                    if it.id == 1 + k {
                        panic!("fill callback")
                    }
                    cols[0] = Utf32String::default();
                },
            );
        }));
        assert!(r.is_err());
        // items 1 ..= 1 + k were created by the iterator before the panic
        created = 2 + k as usize;
    }
    v.push(Item { id: created as u8, payload: 7 }, ok_fill);
    created += 1;
    drop(v);
    let mut bad = Vec::new();
    for id in 0..MAXID {
        let want = if id < created { 1 } else { 0 };
        if drops(id) != want {
            bad.push(format!("item {id}: dropped {} times, expected {want}", drops(id)));
        }
    }
    if bad.is_empty() {
        println!("PANIC-PROBE ok");
    } else {
        println!("PANIC-PROBE bad {}", bad.join("; "));
    }
}

include!(concat!(env!("NUCLEO_VERIF_GEN"), "/nucleo_boxcar.rs"));
