// C05 (+ C02/C03/C04/C10 on the same runs): substring / prefix / postfix / exact, and the
// one-character fuzzy arm, through the PUBLIC entry points (their dispatch is shallow).
use super::common::*;
use super::spec;
use super::sym::{self, assume, check, cover};
use crate::{Matcher, Utf32Str};

#[derive(Clone, Copy, PartialEq, Eq)]
pub enum Kind {
    Substring,
    Prefix,
    Postfix,
    Exact,
    Fuzzy1,
}

fn call(m: &mut Matcher, k: Kind, h: Utf32Str<'_>, n: Utf32Str<'_>, idx: Option<&mut Vec<u32>>) -> Option<u16> {
    match (k, idx) {
        (Kind::Substring, Some(i)) => m.substring_indices(h, n, i),
        (Kind::Substring, None) => m.substring_match(h, n),
        (Kind::Prefix, Some(i)) => m.prefix_indices(h, n, i),
        (Kind::Prefix, None) => m.prefix_match(h, n),
        (Kind::Postfix, Some(i)) => m.postfix_indices(h, n, i),
        (Kind::Postfix, None) => m.postfix_match(h, n),
        (Kind::Exact, Some(i)) => m.exact_indices(h, n, i),
        (Kind::Exact, None) => m.exact_match(h, n),
        (Kind::Fuzzy1, Some(i)) => m.fuzzy_indices(h, n, i),
        (Kind::Fuzzy1, None) => m.fuzzy_match(h, n),
    }
}

/// expected start of the match (None = no match), from the statement of C05
fn expected_start<const H: usize, const N: usize>(
    k: Kind,
    hay: &[u8; H],
    nh: &[u8; H],
    needle: &[u8; N],
    bonus: &[u32; H],
) -> Option<usize> {
    if N > H {
        return None;
    }
    // leading / trailing haystack whitespace is ignored unless the needle starts / ends with it
    let mut lead = 0;
    if !spec::is_ws_ascii(needle[0]) {
        while lead < H && spec::is_ws_ascii(hay[lead]) {
            lead += 1;
        }
    }
    let mut trail = 0;
    if !spec::is_ws_ascii(needle[N - 1]) {
        while trail < H && spec::is_ws_ascii(hay[H - 1 - trail]) {
            trail += 1;
        }
    }
    match k {
        Kind::Substring | Kind::Fuzzy1 => {
            // leftmost occurrence among those whose first character earns the highest bonus
            let mut best: Option<usize> = None;
            let mut i = 0;
            while i + N <= H {
                if spec::occurs_at(nh, needle, i) {
                    best = match best {
                        Some(b) if bonus[b] >= bonus[i] => Some(b),
                        _ => Some(i),
                    };
                }
                i += 1;
            }
            best
        }
        Kind::Prefix => {
            if lead + N <= H && spec::occurs_at(nh, needle, lead) {
                Some(lead)
            } else {
                None
            }
        }
        Kind::Postfix => {
            if trail + N <= H && spec::occurs_at(nh, needle, H - trail - N) {
                Some(H - trail - N)
            } else {
                None
            }
        }
        Kind::Exact => {
            if lead + trail + N == H && spec::occurs_at(nh, needle, lead) {
                Some(lead)
            } else {
                None
            }
        }
    }
}

pub fn contiguous_ascii<const H: usize, const N: usize, const P: usize>(k: Kind, path: Option<bool>, ic: Option<bool>) {
    let sc = sym_config_full(path, ic, Some(false));
    let hay: [u8; H] = sym::ascii_arr();
    let needle: [u8; N] = sym_needle_ascii(sc.cfg.ignore_case);
    // U+000B: std's byte and char whitespace predicates disagree and the statement does not
    // say which is meant - outside the claim
    let mut i = 0;
    while i < H {
        assume(hay[i] != 0x0b);
        i += 1;
    }
    let mut i = 0;
    while i < N {
        assume(needle[i] != 0x0b);
        i += 1;
    }
    let nh = norm_ascii(&hay, sc.cfg.ignore_case);
    let bonus = bonus_ascii(&hay, sc.scheme);
    let want = expected_start::<H, N>(k, &hay, &nh, &needle, &bonus);
    let mut m = sym_matcher(&sc.cfg);
    let (mut idx, pre) = sym_indices::<P>(N);
    let r = call(&mut m, k, Utf32Str::Ascii(&hay), Utf32Str::Ascii(&needle), Some(&mut idx));
    check!(r.is_some() == want.is_some(), "C05 contiguous matching decides the documented relation");
    check!(idx.len() == P + if r.is_some() { N } else { 0 }, "C02 exactly one index per needle char is appended, nothing on failure (contiguous kinds)");
    let mut i = 0;
    while i < P && i < idx.len() {
        check!(idx[i] == pre[i], "C02 earlier content of the indices vector is untouched (contiguous kinds)");
        i += 1;
    }
    if let (Some(score), Some(ws)) = (r, want) {
        if idx.len() == P + N {
            let w = &idx[P..];
            let mut contiguous = true;
            let mut i = 1;
            while i < N {
                if w[i] != w[0] + i as u32 {
                    contiguous = false;
                }
                i += 1;
            }
            check!(contiguous && spec::valid_witness(&nh, &needle, w), "C02 contiguous kinds report contiguous, valid indices");
            // (a failed check cuts the path under Kani: the one-character clause of C04 comes before the
            // occurrence check it would otherwise hide behind)
            if k == Kind::Fuzzy1 {
                check!(score as u32 == 16 + 2 * bonus[ws], "C04 one-character needle: the best-placed occurrence wins");
            }
            check!(w[0] as usize == ws, "C05 the reported occurrence is the leftmost one whose first character earns the highest bonus / is anchored as the kind requires");
            if contiguous && (w[0] as usize) + N <= H {
                check!(score as u32 == spec::score_of(&bonus, w, N), "C03 score equals the fzf scheme evaluated on the reported alignment (contiguous kinds)");
            }
        }
        cover!(ws > 0, "match not at position 0");
        cover!(ws + N == H, "occurrence ending at the last haystack character");
    }
    cover!(r.is_none(), "no match");
    let r2 = call(&mut m, k, Utf32Str::Ascii(&hay), Utf32Str::Ascii(&needle), None);
    check!(r2.is_some() == want.is_some(), "C05 contiguous matching decides the documented relation (score-only variant)");
    if k == Kind::Fuzzy1 {
        if let (Some(score), Some(ws)) = (r2, want) {
            check!(score as u32 == 16 + 2 * bonus[ws], "C04 one-character needle: the best-placed occurrence wins (score-only variant)");
        }
    }
    // (a failed check cuts the path under Kani: the property-specific checks come first)
    check!(r2 == r, "C03 score-only and indices variants return the same value (contiguous kinds)");
    std::mem::forget(m);
}

include!(concat!(env!("NUCLEO_VERIF_GEN"), "/matcher_exact.rs"));

/// C03 "never wraps around for long needles" / C10 "no arithmetic overflow": a haystack and a
/// needle of L equal characters (the whole configuration is symbolic; L is concrete and large
/// enough that the plain sum exceeds u16::MAX). Kani's overflow checks are
/// the assertion; the result must be the saturated value.
pub fn long_needle<const L: usize>(k: Kind) {
    let sc = sym_config(None);
    // content concrete ('a' repeated): with a symbolic byte every whitespace-trimming and
    // comparison loop gets a symbolic exit and symbolic execution of 4200 iterations does not
    // finish; the whole configuration stays symbolic
    let b = b'a';
    let hay = [b; L];
    let mut m = Matcher::new(sc.cfg.clone());
    let r = call(&mut m, k, Utf32Str::Ascii(&hay), Utf32Str::Ascii(&hay), None);
    check!(r.is_some(), "C05 a string matches itself (long needle)");
    // every step adds at least 20 (16 + the run bonus of at least 4): from 3400 characters on
    // the true value exceeds u16::MAX whatever the configuration; below that only "no overflow"
    // (Kani's arithmetic checks) is asserted
    if L >= 3400 {
        check!(r == Some(u16::MAX), "C03 the score of a needle of several thousand characters saturates instead of wrapping around");
    } else {
        check!(r.map_or(false, |v| v as usize >= 20 * (L - 1)), "C03 the score of a long needle does not wrap around");
    }
    std::mem::forget(m);
}

/// the prefer_prefix penalty must not overflow wherever the match starts: the scoring walk is
/// entered directly (no scan loops over the long haystack) with a SYMBOLIC start position in a
/// haystack of 22 400 symbolic bytes (the penalty 3 + 3*(start-1) exceeds u16 from start 21 846 on) and a one-character needle; Kani's overflow checks are the
/// assertion
pub fn prefix_penalty_all_starts() {
    use crate::chars::AsciiChar;
    const L: usize = 22_400;
    let sc = sym_config(Some(true));
    let hay: [u8; L] = sym::bytes();
    let start = sym::usize_();
    assume(start < L);
    let needle = [hay[start]];
    let mut m = Matcher::new(sc.cfg.clone());
    let r = m.calculate_score::<false, AsciiChar, AsciiChar>(
        AsciiChar::cast(&hay),
        AsciiChar::cast(&needle),
        start,
        start + 1,
        &mut Vec::new(),
    );
    check!(r >= 16, "C03 a one-character match scores at least the match score wherever it starts");
    cover!(start > 21_900, "match far into the haystack");
    std::mem::forget(m);
}
