// C14: pattern text is parsed by one grammar. Reference parser written from the grammar in the
// statement / the AtomKind documentation; the real Atom::parse / Pattern::parse / reparse run on
// symbolic byte strings of concrete length.
use super::common::*;
use super::sym::{self, assume, check, cover};
use crate::pattern::{Atom, AtomKind, CaseMatching, Normalization, Pattern};
use crate::{Config, Matcher, Utf32Str};

pub const MAXL: usize = 8;

#[derive(Clone, Copy, PartialEq, Eq, Debug)]
pub struct RefAtom {
    pub negative: bool,
    pub kind: AtomKind,
    pub needle: [u8; MAXL],
    pub len: usize,
    pub ignore_case: bool,
    pub normalize: bool,
}

fn sym_case() -> CaseMatching {
    let k = sym::u8_();
    assume(k < 3);
    match k {
        0 => CaseMatching::Respect,
        1 => CaseMatching::Ignore,
        _ => CaseMatching::Smart,
    }
}

fn sym_norm() -> Normalization {
    if sym::bool_() {
        Normalization::Smart
    } else {
        Normalization::Never
    }
}

/// reference: one atom (text between unescaped whitespace), ASCII
pub fn ref_atom(raw: &[u8], case: CaseMatching, norm: Normalization, markers: bool, fixed_kind: AtomKind) -> RefAtom {
    let mut lo = 0usize;
    let mut hi = raw.len();
    let mut negative = false;
    let mut kind = fixed_kind;
    let mut append_dollar = false;
    if markers {
        kind = AtomKind::Fuzzy;
        if hi - lo >= 1 && raw[lo] == b'!' {
            negative = true;
            lo += 1;
        } else if hi - lo >= 2 && raw[lo] == b'\\' && raw[lo + 1] == b'!' {
            lo += 1;
        }
        if hi - lo >= 1 && raw[lo] == b'^' {
            kind = AtomKind::Prefix;
            lo += 1;
        } else if hi - lo >= 1 && raw[lo] == b'\'' {
            kind = AtomKind::Substring;
            lo += 1;
        } else if hi - lo >= 2 && raw[lo] == b'\\' && (raw[lo + 1] == b'^' || raw[lo + 1] == b'\'') {
            lo += 1;
        }
        if hi - lo >= 2 && raw[hi - 2] == b'\\' && raw[hi - 1] == b'$' {
            append_dollar = true;
            hi -= 2;
        } else if hi - lo >= 1 && raw[hi - 1] == b'$' {
            kind = if kind == AtomKind::Fuzzy { AtomKind::Postfix } else { AtomKind::Exact };
            hi -= 1;
        }
        if negative && kind == AtomKind::Fuzzy {
            kind = AtomKind::Substring;
        }
    }
    // body: an escaped space is a literal space, everything else is kept literally
    let mut needle = [0u8; MAXL];
    let mut len = 0;
    let mut i = lo;
    while i < hi {
        if raw[i] == b'\\' && i + 1 < hi && raw[i + 1] == b' ' {
            needle[len] = b' ';
            i += 2;
        } else {
            needle[len] = raw[i];
            i += 1;
        }
        len += 1;
    }
    let mut has_upper = false;
    let mut k = 0;
    while k < len {
        if needle[k] >= b'A' && needle[k] <= b'Z' {
            has_upper = true;
        }
        k += 1;
    }
    let ignore_case = match case {
        CaseMatching::Respect => false,
        CaseMatching::Ignore => true,
        CaseMatching::Smart => !has_upper,
    };
    if case == CaseMatching::Ignore {
        let mut k = 0;
        while k < len {
            if needle[k] >= b'A' && needle[k] <= b'Z' {
                needle[k] += 32;
            }
            k += 1;
        }
    }
    if append_dollar {
        needle[len] = b'$';
        len += 1;
    }
    RefAtom {
        negative,
        kind,
        needle,
        len,
        ignore_case,
        // no ASCII character is changed by Latin normalization
        normalize: norm == Normalization::Smart,
    }
}

/// what the real atom looks like from outside (flags observed through their documented effect
/// on the matcher configuration)
pub fn observe(a: &Atom, m: &mut Matcher) -> RefAtom {
    let mut needle = [0u8; MAXL];
    let t = a.needle_text();
    let mut len = 0;
    let mut i = 0;
    while i < t.len() && i < MAXL {
        needle[i] = t.get(i as u32) as u32 as u8;
        len += 1;
        i += 1;
    }
    m.config.ignore_case = !m.config.ignore_case;
    let _ = a.score(Utf32Str::Ascii(b""), m);
    RefAtom {
        negative: a.negative,
        kind: a.kind,
        needle,
        len: t.len(),
        ignore_case: m.config.ignore_case,
        normalize: m.config.normalize,
    }
}

fn same(a: &RefAtom, b: &RefAtom) -> bool {
    if a.len != b.len {
        return false;
    }
    let mut i = 0;
    while i < a.len && i < MAXL {
        if a.needle[i] != b.needle[i] {
            return false;
        }
        i += 1;
    }
    a.negative == b.negative && a.kind == b.kind && a.ignore_case == b.ignore_case && a.normalize == b.normalize
}

/// Atom::parse on L symbolic ASCII bytes
pub fn atom_parse_ascii<const L: usize>() {
    let raw: [u8; L] = sym::ascii_arr();
    let case = sym_case();
    let norm = sym_norm();
    let text = unsafe { std::str::from_utf8_unchecked(&raw) };
    let atom = Atom::parse(text, case, norm);
    let mut m = Matcher::new(Config::DEFAULT);
    let got = observe(&atom, &mut m);
    let want = ref_atom(&raw, case, norm, true, AtomKind::Fuzzy);
    check!(got.negative == want.negative, "C14 '!' is read as negation unless backslash-escaped");
    check!(got.kind == want.kind, "C14 '^', ''' and '$' are read as match-kind markers unless backslash-escaped");
    check!(got.len == want.len, "C14 the needle keeps everything but markers and escape backslashes (length)");
    check!(same(&got, &want), "C14 parsed atom equals the reference grammar (needle text, kind, polarity, smart case, smart normalization)");
    cover!(want.negative && want.kind == AtomKind::Exact, "negated exact atom");
    cover!(want.len == 0, "atom with an empty needle");
    std::mem::forget(atom);
    std::mem::forget(m);
}

/// Atom::new (no markers) on L symbolic ASCII bytes, escape_whitespace symbolic
pub fn atom_new_ascii<const L: usize>() {
    let raw: [u8; L] = sym::ascii_arr();
    let case = sym_case();
    let norm = sym_norm();
    let text = unsafe { std::str::from_utf8_unchecked(&raw) };
    let atom = Atom::new(text, case, norm, AtomKind::Substring, true);
    let mut m = Matcher::new(Config::DEFAULT);
    let got = observe(&atom, &mut m);
    let want = ref_atom(&raw, case, norm, false, AtomKind::Substring);
    check!(same(&got, &want), "C14 Atom::new keeps the text literally apart from escaped spaces (needle text, kind, polarity, smart case, smart normalization)");
    std::mem::forget(atom);
    std::mem::forget(m);
}

/// Atom::parse on a text whose STRUCTURE is concrete (marker prefix, optional escaped space in the
/// middle, marker suffix - enumerated by the driver) and whose letters have a symbolic CASE; the
/// case / normalization modes are symbolic. (Fully symbolic bytes send CBMC through std's
/// two-way searcher, `is_ascii`'s word-at-a-time scan and - because `is_ascii()` is not decided
/// during symbolic execution - through unicode-segmentation's GraphemeCursor, with heap strings
/// of symbolic length: one byte already runs > 20 min.)
pub fn atom_parse_shape<const L: usize>(text: [u8; L]) {
    let mut raw = text;
    let mut i = 0;
    while i < L {
        // every lower-case letter of the template becomes "this letter, in either case"
        if raw[i] >= b'a' && raw[i] <= b'z' {
            if sym::bool_() {
                raw[i] -= 32;
            }
        }
        i += 1;
    }
    let case = sym_case();
    let norm = sym_norm();
    let s = unsafe { std::str::from_utf8_unchecked(&raw) };
    let atom = Atom::parse(s, case, norm);
    let mut m = Matcher::new(Config::DEFAULT);
    let got = observe(&atom, &mut m);
    let want = ref_atom(&raw, case, norm, true, AtomKind::Fuzzy);
    check!(got.negative == want.negative, "C14 an exclamation mark is read as negation unless backslash-escaped");
    check!(got.kind == want.kind, "C14 caret, quote and dollar are read as match-kind markers unless backslash-escaped");
    check!(same(&got, &want), "C14 parsed atom equals the reference grammar (needle text, kind, polarity, smart case, smart normalization)");
    cover!(got.ignore_case, "atom that ignores case");
    cover!(!got.ignore_case, "atom that respects case");
    std::mem::forget(atom);
    std::mem::forget(m);
}

include!(concat!(env!("NUCLEO_VERIF_GEN"), "/matcher_pattern.rs"));

/// Stub for `str::split_once` (environment; `-Z stubbing`): a naive left-to-right search instead
/// of std's two-way searcher. nucleo-matcher only ever passes the delimiter `"\\ "` (backslash,
/// space); the stub is specialised to it and asserts nothing else reaches it through `ENGINE`.
#[cfg(kani)]
pub fn split_once_escaped_space<'a, P: core::str::pattern::Pattern>(s: &'a str, _delimiter: P) -> Option<(&'a str, &'a str)> {
    let b = s.as_bytes();
    let mut i = 0;
    while i + 1 < b.len() {
        if b[i] == b'\\' && b[i + 1] == b' ' {
            return Some(unsafe { (s.get_unchecked(..i), s.get_unchecked(i + 2..)) });
        }
        i += 1;
    }
    None
}
