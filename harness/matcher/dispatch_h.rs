// D lemma: the dispatchers (fuzzy_matcher_impl, fuzzy_match_greedy_impl) with every callee
// replaced (`-Z stubbing`) by a recording stub that returns arbitrary well-formed values. Asserts
// that each arm hands the prefilter's window to the right callee unchanged and returns the
// callee's result unchanged, that the early exits are taken exactly for N > H, N == 0, N == H,
// and that the contiguous-window shortcut is taken exactly when the window is as long as the
// needle. This is the glue between the P and the O/G/S lemmas.
use super::common::*;
use super::sym::{self, assume, check, cover};
use crate::chars::{AsciiChar, Char};
use crate::{Config, Matcher, Utf32Str};

#[derive(Clone, Copy, PartialEq, Eq, Debug)]
pub enum Callee {
    None,
    Optimal,
    Greedy,
    Score,
    Exact,
    Sub1Ascii,
    Sub1NonAscii,
}

#[derive(Clone, Copy)]
pub struct Rec {
    pub pre_ascii: Option<(usize, usize, usize)>,
    pub pre_non_ascii: Option<(usize, usize)>,
    pub pre_called: u8,
    pub only_greedy: bool,
    pub callee: Callee,
    pub args: (usize, usize, usize),
    pub ret: Option<u16>,
    pub indices_flag: bool,
}
static mut REC: Rec = Rec { pre_ascii: None, pre_non_ascii: None, pre_called: 0, only_greedy: false, callee: Callee::None, args: (0, 0, 0), ret: None, indices_flag: false };
fn rec() -> &'static mut Rec {
    unsafe { &mut *std::ptr::addr_of_mut!(REC) }
}

pub fn s_prefilter_ascii(_m: &Matcher, _h: &[u8], _n: &[u8], only_greedy: bool) -> Option<(usize, usize, usize)> {
    let r = rec();
    r.pre_called += 1;
    r.only_greedy = only_greedy;
    r.pre_ascii
}
pub fn s_prefilter_non_ascii(_m: &Matcher, _h: &[char], _n: Utf32Str<'_>, only_greedy: bool) -> Option<(usize, usize)> {
    let r = rec();
    r.pre_called += 1;
    r.only_greedy = only_greedy;
    r.pre_non_ascii
}
pub fn s_optimal<const INDICES: bool, H: Char + PartialEq<N>, N: Char>(
    _m: &mut Matcher, _h: &[H], _n: &[N], start: usize, greedy_end: usize, end: usize, _i: &mut Vec<u32>,
) -> Option<u16> {
    let r = rec();
    r.callee = Callee::Optimal;
    r.args = (start, greedy_end, end);
    r.indices_flag = INDICES;
    r.ret
}
pub fn s_greedy<const INDICES: bool, H: Char + PartialEq<N>, N: Char>(
    _m: &mut Matcher, _h: &[H], _n: &[N], start: usize, end: usize, _i: &mut Vec<u32>,
) -> Option<u16> {
    let r = rec();
    r.callee = Callee::Greedy;
    r.args = (start, end, 0);
    r.indices_flag = INDICES;
    r.ret
}
pub fn s_score<const INDICES: bool, H: Char + PartialEq<N>, N: Char>(
    _m: &mut Matcher, _h: &[H], _n: &[N], start: usize, end: usize, _i: &mut Vec<u32>,
) -> u16 {
    let r = rec();
    r.callee = Callee::Score;
    r.args = (start, end, 0);
    r.indices_flag = INDICES;
    r.ret.unwrap_or(0)
}
pub fn s_exact<const INDICES: bool>(
    _m: &mut Matcher, _h: Utf32Str<'_>, _n: Utf32Str<'_>, start: usize, end: usize, _i: &mut Vec<u32>,
) -> Option<u16> {
    let r = rec();
    r.callee = Callee::Exact;
    r.args = (start, end, 0);
    r.indices_flag = INDICES;
    r.ret
}
pub fn s_sub1_ascii<const INDICES: bool>(_m: &mut Matcher, _h: &[u8], _c: u8, _i: &mut Vec<u32>) -> Option<u16> {
    let r = rec();
    r.callee = Callee::Sub1Ascii;
    r.indices_flag = INDICES;
    r.ret
}
pub fn s_sub1_non_ascii<const INDICES: bool>(_m: &mut Matcher, _h: &[char], _c: char, start: usize, _i: &mut Vec<u32>) -> u16 {
    let r = rec();
    r.callee = Callee::Sub1NonAscii;
    r.args = (start, 0, 0);
    r.indices_flag = INDICES;
    r.ret.unwrap_or(0)
}

/// `unicode_hay`: representation of the haystack; `unicode_needle`: of the needle; `greedy`: which
/// dispatcher; `indices`: which public variant
pub fn dispatch<const H: usize, const N: usize>(unicode_hay: bool, unicode_needle: bool, greedy: bool, indices: bool) {
    let sc = sym_config(None);
    let hb: [u8; H] = sym::ascii_arr();
    let nb: [u8; N] = sym::ascii_arr();
    let mut hc = ['\0'; H];
    let mut i = 0;
    while i < H {
        hc[i] = hb[i] as char;
        i += 1;
    }
    let mut nc = ['\0'; N];
    let mut i = 0;
    while i < N {
        nc[i] = nb[i] as char;
        i += 1;
    }
    // what the stubs will answer
    let r = rec();
    *r = Rec { pre_ascii: None, pre_non_ascii: None, pre_called: 0, only_greedy: false, callee: Callee::None, args: (0, 0, 0), ret: None, indices_flag: false };
    let (s, g, e) = (sym::usize_(), sym::usize_(), sym::usize_());
    // (a needle longer than the haystack has no window: the prefilter stubs then answer None, as the real
    // prefilters do, and the dispatcher must reject without asking any matcher)
    if N <= H {
        assume(s < g && g <= e && e <= H && e - s >= N);
    }
    let pre_some = N <= H && sym::bool_();
    if pre_some {
        r.pre_ascii = Some((s, g, e));
        r.pre_non_ascii = Some((s, e));
    }
    if sym::bool_() {
        r.ret = Some(sym::u16_());
    }
    let want_ret = r.ret;
    let mut m = Matcher::new(sc.cfg.clone());
    let hay = if unicode_hay { Utf32Str::Unicode(&hc) } else { Utf32Str::Ascii(&hb) };
    let needle = if unicode_needle { Utf32Str::Unicode(&nc) } else { Utf32Str::Ascii(&nb) };
    let mut idx: Vec<u32> = Vec::with_capacity(4);
    let got = match (greedy, indices) {
        (false, false) => m.fuzzy_match(hay, needle),
        (false, true) => m.fuzzy_indices(hay, needle, &mut idx),
        (true, false) => m.fuzzy_match_greedy(hay, needle),
        (true, true) => m.fuzzy_indices_greedy(hay, needle, &mut idx),
    };
    let r = *rec();
    // early exits
    if N > H {
        check!(got.is_none() && r.callee == Callee::None && r.pre_called == 0, "C01 a needle longer than the haystack is rejected before any work");
    } else if N == 0 {
        check!(got == Some(0) && r.callee == Callee::None, "C01 the empty needle matches with score zero");
    } else if N == H {
        check!(r.callee == Callee::Exact && r.args == (0, H, 0) && got == want_ret, "C01 equal lengths are decided by the exact comparison over the whole haystack");
        check!(r.indices_flag == indices, "C02 the indices variant is forwarded (equal lengths)");
    } else if !unicode_hay && unicode_needle {
        // known finding D2: this representation pair is always rejected
        cover!(got.is_none(), "INFO byte haystack x code-point needle arm reached");
    } else {
        let one = N == 1 && !greedy;
        if one && !unicode_hay {
            check!(r.callee == Callee::Sub1Ascii && got == want_ret && r.pre_called == 0, "C01 one-character needles on byte haystacks go to the single-character scan");
        } else {
            check!(r.pre_called == 1, "C01 the prefilter is consulted exactly once");
            check!(r.only_greedy == (greedy || (one && unicode_hay)), "C01 the prefilter is asked for the window kind the algorithm needs");
            if !pre_some {
                check!(got.is_none() && r.callee == Callee::None, "C01 a haystack rejected by the prefilter is rejected");
            } else if one {
                check!(r.callee == Callee::Sub1NonAscii && r.args.0 == s && got == Some(want_ret.unwrap_or(0)), "C01 one-character needles on code-point haystacks scan from the prefilter's start");
            } else if greedy {
                if !unicode_hay && N == g - s {
                    check!(r.callee == Callee::Score && r.args == (s, g, 0) && got == Some(want_ret.unwrap_or(0)), "C01 greedy: a window as long as the needle is scored directly");
                } else if !unicode_hay {
                    check!(r.callee == Callee::Greedy && r.args == (s, g, 0) && got == want_ret, "C01 greedy: the prefilter's (start, greedy_end) is handed to the greedy matcher unchanged");
                } else {
                    check!(r.callee == Callee::Greedy && r.args == (s, s + 1, 0) && got == want_ret, "C01 greedy on code points: (start, start + 1) is handed to the greedy matcher");
                }
            } else if N == e - s {
                if !unicode_hay {
                    check!(r.callee == Callee::Score && r.args == (s, g, 0) && got == Some(want_ret.unwrap_or(0)), "C01 optimal: a window as long as the needle is scored directly");
                } else {
                    check!(r.callee == Callee::Exact && r.args == (s, e, 0) && got == want_ret, "C01 optimal on code points: a window as long as the needle is compared exactly");
                }
            } else if !unicode_hay {
                check!(r.callee == Callee::Optimal && r.args == (s, g, e) && got == want_ret, "C01 optimal: the prefilter's (start, greedy_end, end) is handed to the matrix matcher unchanged");
            } else {
                check!(r.callee == Callee::Optimal && r.args == (s, s + 1, e) && got == want_ret, "C01 optimal on code points: (start, start + 1, end) is handed to the matrix matcher");
            }
            if r.callee != Callee::None {
                check!(r.indices_flag == indices, "C02 the indices variant is forwarded to the callee");
            }
        }
    }
    cover!(r.callee == Callee::Optimal, "dispatch reaches the matrix matcher");
    std::mem::forget(m);
}

/// Native confirmation of a D-lemma counterexample. The stubs do not exist natively, so the
/// counterexample (wrong arguments handed to a callee) is confirmed through its observable
/// consequence: under the small scratch geometry a 35-character window does not fit the matrix,
/// the matrix matcher falls back to the greedy one with the arguments the dispatcher passed, and
/// all four entry points must still agree with the subsequence oracle - for both
/// representations, with the needle's first character occurring again inside the window.
#[cfg(not(kani))]
pub fn dispatch_native(unicode_hay: bool, unicode_needle: bool) {
    use super::spec;
    let mut cfgs = vec![Config::DEFAULT, Config::DEFAULT.match_paths()];
    cfgs[1].ignore_case = false;
    for cfg in cfgs {
        let texts: [(&str, &str); 4] = [
            ("xabababababababababababababababababab", "ab"),
            ("xaaaaaaaaaaaaaaaaaaaaaaaaaaaaaaaaaab", "ab"),
            ("xabcabcabcabcabcabcabcabcabcabcabcabc", "abc"),
            ("xbabababababababababababababababababa", "ab"),
        ];
        for (h, n) in texts {
            let hb = h.as_bytes();
            let nb = n.as_bytes();
            let hc: Vec<char> = h.chars().collect();
            let ncv: Vec<char> = n.chars().collect();
            let hay = if unicode_hay { Utf32Str::Unicode(&hc) } else { Utf32Str::Ascii(hb) };
            let needle = if unicode_needle { Utf32Str::Unicode(&ncv) } else { Utf32Str::Ascii(nb) };
            if !unicode_hay && unicode_needle {
                continue; // known finding D2
            }
            let want = spec::is_subseq(hb, nb);
            let mut m = Matcher::new(cfg.clone());
            let mut i1 = Vec::new();
            let mut i2 = Vec::new();
            let a = m.fuzzy_match(hay, needle);
            let b = m.fuzzy_indices(hay, needle, &mut i1);
            let c = m.fuzzy_match_greedy(hay, needle);
            let d = m.fuzzy_indices_greedy(hay, needle, &mut i2);
            check!(a.is_some() == want && b.is_some() == want && c.is_some() == want && d.is_some() == want, "C01 all four fuzzy entry points decide the subsequence relation when the window does not fit the matrix");
            check!(a == b && c == d, "C03 score-only and indices variants agree when the window does not fit the matrix");
            if want {
                check!(spec::valid_witness(hb, nb, &i1) && spec::valid_witness(hb, nb, &i2), "C02 indices are a valid witness when the window does not fit the matrix");
            }
        }
    }
}
#[cfg(not(kani))]
pub fn lookup(name: &str) -> Option<fn()> {
    if !name.starts_with("dispatch_") {
        return None;
    }
    // name: dispatch_h<H>_n<N>_<hay><needle>_...
    let reprs = name.split('_').nth(3)?;
    match reprs {
        "aa" => Some((|| dispatch_native(false, false)) as fn()),
        "au" => Some((|| dispatch_native(false, true)) as fn()),
        "ua" => Some((|| dispatch_native(true, false)) as fn()),
        "uu" => Some((|| dispatch_native(true, true)) as fn()),
        _ => None,
    }
}

macro_rules! harnesses_dispatch {
    ($( $name:ident [$unwind:literal] => $body:expr ;)*) => {
        $(
            #[cfg(kani)]
            #[kani::proof]
            #[kani::unwind($unwind)]
            #[kani::stub(crate::Matcher::prefilter_ascii, crate::verif::dispatch_h::s_prefilter_ascii)]
            #[kani::stub(crate::Matcher::prefilter_non_ascii, crate::verif::dispatch_h::s_prefilter_non_ascii)]
            #[kani::stub(crate::Matcher::fuzzy_match_optimal, crate::verif::dispatch_h::s_optimal)]
            #[kani::stub(crate::Matcher::fuzzy_match_greedy_, crate::verif::dispatch_h::s_greedy)]
            #[kani::stub(crate::Matcher::calculate_score, crate::verif::dispatch_h::s_score)]
            #[kani::stub(crate::Matcher::exact_match_impl, crate::verif::dispatch_h::s_exact)]
            #[kani::stub(crate::Matcher::substring_match_1_ascii, crate::verif::dispatch_h::s_sub1_ascii)]
            #[kani::stub(crate::Matcher::substring_match_1_non_ascii, crate::verif::dispatch_h::s_sub1_non_ascii)]
            fn $name() { $body; kani::cover!(true, "END harness end reachable"); }
        )*
    };
}

#[cfg(kani)]
include!(concat!(env!("NUCLEO_VERIF_GEN"), "/matcher_dispatch.rs"));
