// The code-point representation (haystack held as &[char]); needle either &[char] or ASCII bytes.
// Same lemma chain as fuzzy.rs: P' prefilter_non_ascii, O' optimal on a concrete window,
// G' greedy (score-only), S' scoring walk, plus the public contiguous kinds and the
// one-character arm. Characters are symbolic below U+2100 (Latin, IPA, Greek, Cyrillic, ...,
// General Punctuation, super/subscripts) - see the Latin-1 note below; C16 supplies generality over the other scalars.
use super::common::*;
use super::spec::{self, Cls};
use super::sym::{self, assume, check, cover};
use crate::chars::{AsciiChar, Char};
use crate::{Matcher, Utf32Str};

// Alphabet: Latin-1 (U+0000..U+00FF, without U+00B5 whose folding leaves the range). On this
// domain the character-level leaf functions (chars::normalize, chars::to_lower_case,
// chars::is_upper_case and std's Unicode predicates) are replaced under Kani (`-Z stubbing`) by
// the closed-form models of `latin1` below - executing the real 1454-entry binary searches for
// every symbolic character costs 4-8 GB per harness. The models are (a) generated from the
// current source (normalize table) and (b) proved equal to the real functions for every
// character of the domain by the `latin1_model_agrees` harness on every run; native replay
// runs the real functions.
const LIMIT: u32 = 0x100;

pub mod latin1 {
    include!(concat!(env!("NUCLEO_VERIF_GEN"), "/latin1_model.rs"));
    fn dom(c: char) {
        assert!((c as u32) < 0x100 && c as u32 != 0xB5, "ENGINE latin1 model used outside its domain");
    }
    pub fn to_lower_case(c: char) -> char {
        dom(c);
        let u = c as u32;
        if (u >= 0x41 && u <= 0x5A) || (u >= 0xC0 && u <= 0xDE && u != 0xD7) {
            unsafe { char::from_u32_unchecked(u + 32) }
        } else {
            c
        }
    }
    pub fn is_upper_case(c: char) -> bool {
        dom(c);
        let u = c as u32;
        (u >= 0x41 && u <= 0x5A) || (u >= 0xC0 && u <= 0xDE && u != 0xD7)
    }
    pub fn normalize(c: char) -> char {
        dom(c);
        let u = c as u32;
        if u < 0xA0 {
            c
        } else {
            unsafe { char::from_u32_unchecked(NORMALIZE_LATIN1[(u - 0xA0) as usize]) }
        }
    }
    pub fn is_lowercase(c: char) -> bool {
        dom(c);
        let u = c as u32;
        (u >= 0x61 && u <= 0x7A) || u == 0xAA || u == 0xBA || (u >= 0xDF && u <= 0xFF && u != 0xF7)
    }
    pub fn is_numeric(c: char) -> bool {
        dom(c);
        let u = c as u32;
        (u >= 0x30 && u <= 0x39) || u == 0xB2 || u == 0xB3 || u == 0xB9 || (u >= 0xBC && u <= 0xBE)
    }
    pub fn is_alphabetic(c: char) -> bool {
        dom(c);
        let u = c as u32;
        (u >= 0x41 && u <= 0x5A) || (u >= 0x61 && u <= 0x7A) || u == 0xAA || u == 0xBA
            || (u >= 0xC0 && u <= 0xFF && u != 0xD7 && u != 0xF7)
    }
    pub fn is_whitespace(c: char) -> bool {
        dom(c);
        let u = c as u32;
        u == 0x20 || (u >= 0x09 && u <= 0x0D) || u == 0x85 || u == 0xA0
    }
}

/// the models equal the real functions on the whole domain (run without the stubs)
pub fn latin1_model_agrees() {
    let c = sym::char_below(0x100);
    assume(c as u32 != 0xB5);
    check!(crate::chars::to_lower_case(c) == latin1::to_lower_case(c), "ENGINE latin1 model: to_lower_case");
    check!(crate::chars::is_upper_case(c) == latin1::is_upper_case(c), "ENGINE latin1 model: is_upper_case");
    check!(crate::chars::normalize(c) == latin1::normalize(c), "ENGINE latin1 model: normalize");
    check!(c.is_lowercase() == latin1::is_lowercase(c), "ENGINE latin1 model: is_lowercase");
    check!(c.is_numeric() == latin1::is_numeric(c), "ENGINE latin1 model: is_numeric");
    check!(c.is_alphabetic() == latin1::is_alphabetic(c), "ENGINE latin1 model: is_alphabetic");
    check!(c.is_whitespace() == latin1::is_whitespace(c), "ENGINE latin1 model: is_whitespace");
}

macro_rules! harnesses_latin1 {
    ($( $name:ident [$unwind:literal] => $body:expr ;)*) => {
        $(
            #[cfg(kani)]
            #[kani::proof]
            #[kani::unwind($unwind)]
            #[kani::stub(std::vec::Vec::push, crate::verif::common::push_no_grow)]
            #[kani::stub(crate::chars::to_lower_case, crate::verif::uni_h::latin1::to_lower_case)]
            #[kani::stub(crate::chars::is_upper_case, crate::verif::uni_h::latin1::is_upper_case)]
            #[kani::stub(crate::chars::normalize::normalize, crate::verif::uni_h::latin1::normalize)]
            #[kani::stub(char::is_lowercase, crate::verif::uni_h::latin1::is_lowercase)]
            #[kani::stub(char::is_numeric, crate::verif::uni_h::latin1::is_numeric)]
            #[kani::stub(char::is_alphabetic, crate::verif::uni_h::latin1::is_alphabetic)]
            #[kani::stub(char::is_whitespace, crate::verif::uni_h::latin1::is_whitespace)]
            fn $name() { $body; kani::cover!(true, "END harness end reachable"); }
        )*
        #[cfg(not(kani))]
        pub fn lookup(name: &str) -> Option<fn()> {
            $( if name == stringify!($name) { fn f() { $body } return Some(f); } )*
            None
        }
    };
}

#[cfg(kani)]
#[kani::proof]
#[kani::unwind(13)]
fn latin1_model_agrees_h() {
    latin1_model_agrees();
    kani::cover!(true, "END harness end reachable");
}

fn sym_hay<const H: usize>() -> [char; H] {
    let mut a = ['\0'; H];
    let mut i = 0;
    while i < H {
        a[i] = sym::char_below(LIMIT);
        assume(a[i] as u32 != 0xB5);
        i += 1;
    }
    a
}

/// an already-normalized needle: code points (`ascii` = false) or ASCII held as code points
fn sym_needle<const N: usize>(cfg: &crate::Config, ascii: bool) -> [char; N] {
    let mut a = ['\0'; N];
    let mut i = 0;
    while i < N {
        let c = sym::char_below(if ascii { 128 } else { LIMIT });
        assume(c as u32 != 0xB5);
        assume(spec::norm_char(c, cfg.ignore_case, cfg.normalize) == c);
        a[i] = c;
        i += 1;
    }
    a
}

fn to_bytes<const N: usize>(n: &[char; N]) -> [u8; N] {
    let mut b = [0u8; N];
    let mut i = 0;
    while i < N {
        b[i] = n[i] as u32 as u8;
        i += 1;
    }
    b
}

fn assume_window<const H: usize, const N: usize>(nh: &[char; H], needle: &[char; N], s: usize, e: usize) {
    assume(nh[s] == needle[0]);
    let mut i = 0;
    while i < s {
        assume(nh[i] != needle[0]);
        i += 1;
    }
    let mut i = e;
    while i < H {
        assume(nh[i] != needle[N - 1]);
        i += 1;
    }
}

// ---------------------------------------------------------------------------------------------
// P': prefilter_non_ascii
// ---------------------------------------------------------------------------------------------
pub fn prefilter_uni<const H: usize, const N: usize>(needle_ascii: bool) {
    let sc = sym_config_p(Some(false), None);
    let hay: [char; H] = sym_hay();
    let needle: [char; N] = sym_needle(&sc.cfg, needle_ascii);
    let nb = to_bytes(&needle);
    let only_greedy = sym::bool_();
    let m = Matcher::new(sc.cfg.clone());
    let nh = norm_chars(&hay, &sc.cfg);
    let n32 = if needle_ascii { Utf32Str::Ascii(&nb) } else { Utf32Str::Unicode(&needle) };
    let r = m.prefilter_non_ascii(&hay, n32, only_greedy);
    if r.is_none() {
        check!(!spec::is_subseq(&nh, &needle), "C01 prefilter_non_ascii rejects only haystacks that do not contain the needle as a subsequence");
    }
    if let Some((s, e)) = r {
        check!(s < e && e <= H, "C01 prefilter_non_ascii window is well formed");
        if s < H && e <= H {
            check!(nh[s] == needle[0], "C01 prefilter_non_ascii window starts at an occurrence of the first needle char");
            let mut i = 0;
            while i < s {
                check!(nh[i] != needle[0], "C01 prefilter_non_ascii window starts at the FIRST occurrence of the first needle char");
                i += 1;
            }
            if !only_greedy {
                let mut i = e;
                while i < H {
                    check!(nh[i] != needle[N - 1], "C01 prefilter_non_ascii no occurrence of the last needle char at or after end");
                    i += 1;
                }
                check!(e - s >= N, "C01 prefilter_non_ascii window is at least as long as the needle");
            } else {
                check!(e == s + 1, "C01 prefilter_non_ascii only_greedy returns (start, start + 1)");
            }
        }
        cover!(s > 0, "window starts after position 0");
    }
    cover!(r.is_none(), "prefilter rejects");
}

fn check_result<const H: usize, const N: usize, const P: usize>(
    nh: &[char; H],
    needle: &[char; N],
    bonus: &[u32; H],
    r: Option<u16>,
    idx: &[u32],
    pre: &[u32; P],
    optimal: bool,
) {
    check!(idx.len() == P + if r.is_some() { N } else { 0 }, "C02 exactly one index per needle char is appended, nothing on failure (code points)");
    let mut i = 0;
    while i < P && i < idx.len() {
        check!(idx[i] == pre[i], "C02 earlier content of the indices vector is untouched (code points)");
        i += 1;
    }
    if let Some(score) = r {
        if idx.len() == P + N {
            let w = &idx[P..];
            let valid = spec::valid_witness(nh, needle, w);
            check!(valid, "C02 reported indices are increasing, in range and spell the needle (code points)");
            if valid {
                check!(score as u32 == spec::score_of(bonus, w, N), "C03 score equals the fzf scheme evaluated on the reported alignment (code points)");
                cover!(w[N - 1] - w[0] >= N as u32, "alignment with a gap");
            }
        }
        if optimal {
            let best = spec::best_over_all(nh, needle, bonus);
            let dp = spec::two_matrix_dp(nh, needle, bonus);
            check!(best.is_some() && score as u32 <= best.unwrap_or(0), "C04 optimal score never exceeds the true optimum over all alignments (code points)");
            check!(dp.is_some() && score as u32 >= dp.unwrap_or(u32::MAX), "C04 optimal score is never below the naive two-matrix recurrence (code points)");
        }
    }
}

// ---------------------------------------------------------------------------------------------
// O': fuzzy_match_optimal::<_, char, char | AsciiChar> on window [s, e)
// ---------------------------------------------------------------------------------------------
pub fn optimal_uni<const H: usize, const N: usize, const P: usize>(s: usize, e: usize, needle_ascii: bool, path: Option<bool>) {
    let sc = sym_config_p(path, Some(false));
    let hay: [char; H] = sym_hay();
    let needle: [char; N] = sym_needle(&sc.cfg, needle_ascii);
    let nb = to_bytes(&needle);
    let nh = norm_chars(&hay, &sc.cfg);
    assume_window(&nh, &needle, s, e);
    let bonus = bonus_chars(&hay, sc.scheme);
    let expect = spec::is_subseq(&nh, &needle);
    let mut m = sym_matcher(&sc.cfg);
    let (mut idx, pre) = sym_indices::<P>(N);
    #[cfg(kani)]
    let r = if needle_ascii {
        m.fuzzy_match_optimal::<true, char, AsciiChar>(&hay, AsciiChar::cast(&nb), s, s + 1, e, &mut idx)
    } else {
        m.fuzzy_match_optimal::<true, char, char>(&hay, &needle, s, s + 1, e, &mut idx)
    };
    #[cfg(not(kani))]
    let r = m.fuzzy_indices(
        Utf32Str::Unicode(&hay),
        if needle_ascii { Utf32Str::Ascii(&nb) } else { Utf32Str::Unicode(&needle) },
        &mut idx,
    );
    check!(r.is_some() == expect, "C01 optimal matcher decides the normalized-subsequence relation on the prefilter's window (code points)");
    check_result::<H, N, P>(&nh, &needle, &bonus, r, &idx, &pre, true);
    cover!(r.is_none(), "window without a match (prefilter is not exact for code points)");
    cover!(r.is_some(), "matched");
    #[cfg(kani)]
    let r2 = if needle_ascii {
        m.fuzzy_match_optimal::<false, char, AsciiChar>(&hay, AsciiChar::cast(&nb), s, s + 1, e, &mut Vec::new())
    } else {
        m.fuzzy_match_optimal::<false, char, char>(&hay, &needle, s, s + 1, e, &mut Vec::new())
    };
    #[cfg(not(kani))]
    let r2 = m.fuzzy_match(
        Utf32Str::Unicode(&hay),
        if needle_ascii { Utf32Str::Ascii(&nb) } else { Utf32Str::Unicode(&needle) },
    );
    check!(r2 == r, "C03 score-only and indices variants return the same value (optimal, code points)");
    std::mem::forget(m);
}

// ---------------------------------------------------------------------------------------------
// G': fuzzy_match_greedy_::<false, char, _>(start = s, end = s + 1): forward scan inside
// ---------------------------------------------------------------------------------------------
pub fn greedy_uni<const H: usize, const N: usize>(s: usize, needle_ascii: bool, path: Option<bool>) {
    let sc = sym_config_p(path, Some(false));
    let hay: [char; H] = sym_hay();
    let needle: [char; N] = sym_needle(&sc.cfg, needle_ascii);
    let nb = to_bytes(&needle);
    let nh = norm_chars(&hay, &sc.cfg);
    assume_window(&nh, &needle, s, H);
    let bonus = bonus_chars(&hay, sc.scheme);
    let expect = spec::is_subseq(&nh, &needle);
    let mut m = sym_matcher(&sc.cfg);
    #[cfg(kani)]
    let r = if needle_ascii {
        m.fuzzy_match_greedy_::<false, char, AsciiChar>(&hay, AsciiChar::cast(&nb), s, s + 1, &mut Vec::new())
    } else {
        m.fuzzy_match_greedy_::<false, char, char>(&hay, &needle, s, s + 1, &mut Vec::new())
    };
    #[cfg(not(kani))]
    let r = m.fuzzy_match_greedy(
        Utf32Str::Unicode(&hay),
        if needle_ascii { Utf32Str::Ascii(&nb) } else { Utf32Str::Unicode(&needle) },
    );
    check!(r.is_some() == expect, "C01 greedy matcher decides the normalized-subsequence relation (code points)");
    if let Some(score) = r {
        // oracle: leftmost greedy end from s, backward-minimised start, forward alignment
        let mut k = 1;
        let mut g = s + 1;
        let mut p = s + 1;
        while p < H && k < N {
            if nh[p] == needle[k] {
                k += 1;
                g = p + 1;
            }
            p += 1;
        }
        let mut kk = N;
        let mut start = s;
        let mut p = g;
        while p > s {
            p -= 1;
            if kk > 0 && nh[p] == needle[kk - 1] {
                kk -= 1;
                if kk == 0 {
                    start = p;
                    break;
                }
            }
        }
        let mut want = [0u32; N];
        let mut k = 0;
        let mut p = start;
        while p < g {
            if k < N && nh[p] == needle[k] {
                want[k] = p as u32;
                k += 1;
            }
            p += 1;
        }
        check!(score as u32 == spec::score_of(&bonus, &want, N), "C03 greedy score equals the fzf scheme evaluated on the greedy alignment (code points)");
    }
    cover!(r.is_none(), "no match");
    std::mem::forget(m);
}

// ---------------------------------------------------------------------------------------------
// contiguous kinds and the one-character arm through the public API
// ---------------------------------------------------------------------------------------------
#[derive(Clone, Copy, PartialEq, Eq)]
pub enum Kind {
    Substring,
    Prefix,
    Postfix,
    Exact,
    Fuzzy1,
}

fn call(m: &mut Matcher, k: Kind, h: Utf32Str<'_>, n: Utf32Str<'_>, idx: Option<&mut Vec<u32>>) -> Option<u16> {
    match (k, idx) {
        (Kind::Substring, Some(i)) => m.substring_indices(h, n, i),
        (Kind::Substring, None) => m.substring_match(h, n),
        (Kind::Prefix, Some(i)) => m.prefix_indices(h, n, i),
        (Kind::Prefix, None) => m.prefix_match(h, n),
        (Kind::Postfix, Some(i)) => m.postfix_indices(h, n, i),
        (Kind::Postfix, None) => m.postfix_match(h, n),
        (Kind::Exact, Some(i)) => m.exact_indices(h, n, i),
        (Kind::Exact, None) => m.exact_match(h, n),
        (Kind::Fuzzy1, Some(i)) => m.fuzzy_indices(h, n, i),
        (Kind::Fuzzy1, None) => m.fuzzy_match(h, n),
    }
}

pub fn contiguous_uni<const H: usize, const N: usize, const P: usize>(k: Kind, needle_ascii: bool, path: Option<bool>) {
    let sc = sym_config_p(path, Some(false));
    let hay: [char; H] = sym_hay();
    let needle: [char; N] = sym_needle(&sc.cfg, needle_ascii);
    let nb = to_bytes(&needle);
    // U+000B: see exact_h.rs
    let mut i = 0;
    while i < H {
        assume(hay[i] != '\u{b}');
        i += 1;
    }
    let mut i = 0;
    while i < N {
        assume(needle[i] != '\u{b}');
        i += 1;
    }
    let nh = norm_chars(&hay, &sc.cfg);
    let bonus = bonus_chars(&hay, sc.scheme);
    let mut lead = 0;
    if !needle[0].is_whitespace() {
        while lead < H && hay[lead].is_whitespace() {
            lead += 1;
        }
    }
    let mut trail = 0;
    if !needle[N - 1].is_whitespace() {
        while trail < H && hay[H - 1 - trail].is_whitespace() {
            trail += 1;
        }
    }
    let want: Option<usize> = match k {
        Kind::Substring | Kind::Fuzzy1 => {
            let mut best: Option<usize> = None;
            let mut i = 0;
            while i + N <= H {
                if spec::occurs_at(&nh, &needle, i) {
                    best = match best {
                        Some(b) if bonus[b] >= bonus[i] => Some(b),
                        _ => Some(i),
                    };
                }
                i += 1;
            }
            best
        }
        Kind::Prefix => (lead + N <= H && spec::occurs_at(&nh, &needle, lead)).then_some(lead),
        Kind::Postfix => (trail + N <= H && spec::occurs_at(&nh, &needle, H - trail - N)).then(|| H - trail - N),
        Kind::Exact => (lead + trail + N == H && spec::occurs_at(&nh, &needle, lead)).then_some(lead),
    };
    let mut m = sym_matcher(&sc.cfg);
    let (mut idx, pre) = sym_indices::<P>(N);
    let n32 = if needle_ascii { Utf32Str::Ascii(&nb) } else { Utf32Str::Unicode(&needle) };
    let r = call(&mut m, k, Utf32Str::Unicode(&hay), n32, Some(&mut idx));
    check!(r.is_some() == want.is_some(), "C05 contiguous matching decides the documented relation (code points)");
    check!(idx.len() == P + if r.is_some() { N } else { 0 }, "C02 exactly one index per needle char is appended, nothing on failure (contiguous kinds, code points)");
    let mut i = 0;
    while i < P && i < idx.len() {
        check!(idx[i] == pre[i], "C02 earlier content of the indices vector is untouched (contiguous kinds, code points)");
        i += 1;
    }
    if let (Some(score), Some(ws)) = (r, want) {
        if idx.len() == P + N {
            let w = &idx[P..];
            let mut contiguous = true;
            let mut i = 1;
            while i < N {
                if w[i] != w[0] + i as u32 {
                    contiguous = false;
                }
                i += 1;
            }
            check!(contiguous && spec::valid_witness(&nh, &needle, w), "C02 contiguous kinds report contiguous, valid indices (code points)");
            // (a failed check cuts the path under Kani: the one-character clause of C04 comes before the
            // occurrence check it would otherwise hide behind)
            if k == Kind::Fuzzy1 {
                check!(score as u32 == 16 + 2 * bonus[ws], "C04 one-character needle: the best-placed occurrence wins (code points)");
            }
            check!(w[0] as usize == ws, "C05 the reported occurrence is the leftmost one whose first character earns the highest bonus / is anchored as the kind requires (code points)");
            if contiguous && (w[0] as usize) + N <= H {
                check!(score as u32 == spec::score_of(&bonus, w, N), "C03 score equals the fzf scheme evaluated on the reported alignment (contiguous kinds, code points)");
            }
        }
        cover!(ws > 0, "match not at position 0");
        cover!(ws + N == H, "occurrence ending at the last haystack character");
    }
    cover!(r.is_none(), "no match");
    let r2 = call(&mut m, k, Utf32Str::Unicode(&hay), n32, None);
    check!(r2.is_some() == want.is_some(), "C05 contiguous matching decides the documented relation (score-only variant, code points)");
    if k == Kind::Fuzzy1 {
        if let (Some(score), Some(ws)) = (r2, want) {
            check!(score as u32 == 16 + 2 * bonus[ws], "C04 one-character needle: the best-placed occurrence wins (score-only variant, code points)");
        }
    }
    // (a failed check cuts the path under Kani: the property-specific checks come first)
    check!(r2 == r, "C03 score-only and indices variants return the same value (contiguous kinds, code points)");
    std::mem::forget(m);
}

/// representation independence at the public API: the same ASCII text held as bytes and as code
/// points (either side) must give the same decision and score
pub fn repr_independence<const H: usize, const N: usize>(k: Kind, greedy: bool) {
    let sc = sym_config(Some(false));
    let hb: [u8; H] = sym::ascii_arr();
    let nb: [u8; N] = sym_needle_ascii(sc.cfg.ignore_case);
    let mut hc = ['\0'; H];
    let mut i = 0;
    while i < H {
        hc[i] = hb[i] as char;
        i += 1;
    }
    let mut nc = ['\0'; N];
    let mut i = 0;
    while i < N {
        nc[i] = nb[i] as char;
        i += 1;
    }
    let mut m = sym_matcher(&sc.cfg);
    let f = |m: &mut Matcher, h: Utf32Str<'_>, n: Utf32Str<'_>| -> Option<u16> {
        if greedy {
            m.fuzzy_match_greedy(h, n)
        } else {
            call(m, k, h, n, None)
        }
    };
    let aa = f(&mut m, Utf32Str::Ascii(&hb), Utf32Str::Ascii(&nb));
    let au = f(&mut m, Utf32Str::Ascii(&hb), Utf32Str::Unicode(&nc));
    // Known finding D2 (see /verif/known_findings.json): the dispatchers answer None for EVERY
    // (byte haystack, code-point needle) pair, also when the needle holds only ASCII characters.
    // Exactly that shape is reported as KNOWN-FINDING; any other disagreement is a violation.
    let d2_shape = au.is_none() && aa.is_some();
    cover!(d2_shape, "KNOWN-FINDING D2 byte haystack x all-ASCII code-point needle is rejected although the same text held as bytes matches");
    if !d2_shape {
        check!(aa.is_some() == au.is_some(), "C01 the decision does not depend on the needle being held as bytes or as code points (ASCII haystack)");
        check!(aa == au, "C03 the score does not depend on the needle being held as bytes or as code points (ASCII haystack)");
    }
    // the other direction of the representation pair is not affected
    let ua = f(&mut m, Utf32Str::Unicode(&hc), Utf32Str::Ascii(&nb));
    let uu = f(&mut m, Utf32Str::Unicode(&hc), Utf32Str::Unicode(&nc));
    check!(ua.is_some() == aa.is_some() && uu.is_some() == aa.is_some(), "C01 the decision does not depend on the haystack being held as bytes or as code points");
    check!(ua == aa && uu == aa, "C03 the score does not depend on the haystack being held as bytes or as code points");
    cover!(aa.is_some(), "matched");
    std::mem::forget(m);
}

include!(concat!(env!("NUCLEO_VERIF_GEN"), "/matcher_uni.rs"));
