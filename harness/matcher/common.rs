use super::spec::{self, Cls, Scheme};
use super::sym::{self, assume};
use crate::{Config, Matcher};

/// Declares a family of harnesses: under Kani each becomes a `#[kani::proof]` with the given
/// unwind bound; natively a `lookup(name)` table is generated for counterexample replay.
macro_rules! harnesses {
    ($( $name:ident [$unwind:literal] => $body:expr ;)*) => {
        $(
            #[cfg(kani)]
            #[kani::proof]
            #[kani::unwind($unwind)]
            #[kani::stub(std::vec::Vec::push, crate::verif::common::push_no_grow)]
            fn $name() { $body; kani::cover!(true, "END harness end reachable"); }
        )*
        #[cfg(not(kani))]
        pub fn lookup(name: &str) -> Option<fn()> {
            $( if name == stringify!($name) { fn f() { $body } return Some(f); } )*
            None
        }
        #[cfg(not(kani))]
        pub fn names() -> &'static [&'static str] { &[ $( stringify!($name), )* ] }
    };
}
pub(crate) use harnesses;

/// harness family for the pattern parser: additionally replaces `str::split_once`
macro_rules! harnesses_pattern {
    ($( $name:ident [$unwind:literal] => $body:expr ;)*) => {
        $(
            #[cfg(kani)]
            #[kani::proof]
            #[kani::unwind($unwind)]
            #[kani::stub(std::vec::Vec::push, crate::verif::common::push_no_grow)]
            #[kani::stub(str::split_once, crate::verif::pattern_h::split_once_escaped_space)]
            fn $name() { $body; kani::cover!(true, "END harness end reachable"); }
        )*
        #[cfg(not(kani))]
        pub fn lookup(name: &str) -> Option<fn()> {
            $( if name == stringify!($name) { fn f() { $body } return Some(f); } )*
            None
        }
    };
}
pub(crate) use harnesses_pattern;

pub struct SymCfg {
    pub cfg: Config,
    pub scheme: Scheme,
}

/// Every configuration the properties quantify over: default / path bonuses x ignore_case x
/// normalize x prefer_prefix (prefer_prefix fixed by the caller where the statement fixes it).
pub fn sym_config(prefer_prefix: Option<bool>) -> SymCfg {
    sym_config_p(None, prefer_prefix)
}

/// `path`: Some(b) fixes the bonus profile per harness instance (keeps the delimiter table a
/// constant for the solver); None leaves it symbolic.
pub fn sym_config_p(path: Option<bool>, prefer_prefix: Option<bool>) -> SymCfg {
    sym_config_full(path, None, prefer_prefix)
}

/// `ignore_case`: Some(b) fixes case folding per harness instance (the substring matcher picks
/// one of four search strategies from it; a concrete value keeps only the live ones)
pub fn sym_config_full(path: Option<bool>, ignore_case: Option<bool>, prefer_prefix: Option<bool>) -> SymCfg {
    let path = match path {
        Some(b) => b,
        None => sym::bool_(),
    };
    let mut cfg = if path {
        Config::DEFAULT.match_paths()
    } else {
        Config::DEFAULT
    };
    cfg.ignore_case = match ignore_case {
        Some(b) => b,
        None => sym::bool_(),
    };
    cfg.normalize = sym::bool_();
    cfg.prefer_prefix = match prefer_prefix {
        Some(b) => b,
        None => sym::bool_(),
    };
    SymCfg {
        cfg,
        scheme: Scheme { path },
    }
}

/// A matcher whose scratch memory holds arbitrary bytes: stands for "a matcher that has served
/// any sequence of earlier calls" (C10). The slab is never read before it is written if the
/// code is right, so results must not depend on these bytes.
pub fn sym_matcher(cfg: &Config) -> Matcher {
    let mut m = Matcher::new(cfg.clone());
    let (ptr, len) = m.slab.verif_raw();
    #[cfg(nucleo_verif_small)]
    {
        // small geometry: 24 chars + 24 bonus bytes + 16 row offsets + 24 score cells + 96 cells
        const SLAB: usize = 24 * 4 + 24 + 16 * 2 + 24 * 8 + 96;
        assert!(len == SLAB);
        let pre: [u8; SLAB] = sym::bytes();
        unsafe { std::ptr::copy_nonoverlapping(pre.as_ptr(), ptr, SLAB) };
    }
    let _ = (ptr, len);
    m
}

pub fn bonus_ascii<const H: usize>(hay: &[u8; H], s: Scheme) -> [u32; H] {
    let mut out = [0u32; H];
    let mut prev = s.initial();
    let mut i = 0;
    while i < H {
        let c = s.class_ascii(hay[i]);
        out[i] = s.bonus(prev, c);
        prev = c;
        i += 1;
    }
    out
}

pub fn bonus_chars<const H: usize>(hay: &[char; H], s: Scheme) -> [u32; H] {
    let mut out = [0u32; H];
    let mut prev = s.initial();
    let mut i = 0;
    while i < H {
        let c = s.class(hay[i]);
        out[i] = s.bonus(prev, c);
        prev = c;
        i += 1;
    }
    out
}

pub fn norm_ascii<const H: usize>(hay: &[u8; H], ignore_case: bool) -> [u8; H] {
    let mut out = [0u8; H];
    let mut i = 0;
    while i < H {
        out[i] = spec::fold_ascii(hay[i], ignore_case);
        i += 1;
    }
    out
}

pub fn norm_chars<const H: usize>(hay: &[char; H], cfg: &Config) -> [char; H] {
    let mut out = ['\0'; H];
    let mut i = 0;
    while i < H {
        out[i] = spec::norm_char(hay[i], cfg.ignore_case, cfg.normalize);
        i += 1;
    }
    out
}

/// a needle that is "already normalized" for this configuration (documented precondition)
pub fn sym_needle_ascii<const N: usize>(ignore_case: bool) -> [u8; N] {
    let n: [u8; N] = sym::ascii_arr();
    if ignore_case {
        let mut i = 0;
        while i < N {
            assume(!(n[i] >= b'A' && n[i] <= b'Z'));
            i += 1;
        }
    }
    n
}

/// the caller's indices vector with `P` arbitrary earlier entries (documented: never cleared)
pub fn sym_indices<const P: usize>(extra: usize) -> (Vec<u32>, [u32; P]) {
    let mut v = Vec::with_capacity(P + extra);
    let mut pre = [0u32; P];
    let mut i = 0;
    while i < P {
        pre[i] = sym::u32_();
        v.push(pre[i]);
        i += 1;
    }
    (v, pre)
}


/// Stub for `Vec::push` (environment, `-Z stubbing`): the harnesses hand the code a vector with
/// enough spare capacity, so growth is never needed; exploring `RawVec` growth with a symbolic
/// length is what makes CBMC explode (realloc of a symbolic size). The stub *asserts* that no
/// growth is needed - if the code pushed more than the harness reserved the run fails, it is not
/// silently truncated.
#[cfg(kani)]
pub fn push_no_grow<T, A: std::alloc::Allocator>(v: &mut Vec<T, A>, value: T) {
    let len = v.len();
    assert!(len < v.capacity(), "ENGINE Vec::push stub: growth not expected (harness reserved too little)");
    unsafe {
        std::ptr::write(v.as_mut_ptr().add(len), value);
        v.set_len(len + 1);
    }
}
