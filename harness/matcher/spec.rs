// Reference oracle, written from the property statements and the public documentation.
// It shares no code and NO CONSTANTS with the crate's private modules: every number
// below is a literal taken from the statements of C03/C04.

#[derive(Clone, Copy, PartialEq, Eq, Debug)]
pub enum Cls {
    White,
    NonWord,
    Delim,
    Lower,
    Upper,
    Letter,
    Number,
}

/// The two documented bonus profiles (`Config::DEFAULT`, `Config::match_paths`).
#[derive(Clone, Copy)]
pub struct Scheme {
    pub path: bool,
}

impl Scheme {
    pub fn white(self) -> u32 {
        if self.path {
            8
        } else {
            10
        }
    }
    pub fn initial(self) -> Cls {
        if self.path {
            Cls::Delim
        } else {
            Cls::White
        }
    }
    pub fn is_delim(self, b: u8) -> bool {
        if self.path {
            // unix: '/' only (the sandbox is not windows)
            b == b'/'
        } else {
            b == b'/' || b == b',' || b == b':' || b == b';' || b == b'|'
        }
    }
    pub fn class_ascii(self, b: u8) -> Cls {
        if b >= b'a' && b <= b'z' {
            Cls::Lower
        } else if b >= b'A' && b <= b'Z' {
            Cls::Upper
        } else if b >= b'0' && b <= b'9' {
            Cls::Number
        } else if b == b' ' || b == b'\t' || b == b'\n' || b == 0x0c || b == b'\r' {
            Cls::White
        } else if self.is_delim(b) {
            Cls::Delim
        } else {
            Cls::NonWord
        }
    }
    pub fn class(self, c: char) -> Cls {
        if (c as u32) < 128 {
            return self.class_ascii(c as u8);
        }
        if c.is_lowercase() {
            Cls::Lower
        } else if crate::chars::is_upper_case(c) {
            Cls::Upper
        } else if c.is_numeric() {
            Cls::Number
        } else if c.is_alphabetic() {
            Cls::Letter
        } else if c.is_whitespace() {
            Cls::White
        } else {
            Cls::NonWord
        }
    }
    /// bonus of a character of class `cur` preceded by a character of class `prev`
    pub fn bonus(self, prev: Cls, cur: Cls) -> u32 {
        let word = matches!(cur, Cls::Lower | Cls::Upper | Cls::Letter | Cls::Number);
        if word {
            match prev {
                Cls::White => return self.white(),
                Cls::Delim => return 9,
                Cls::NonWord => return 8,
                _ => {}
            }
        }
        if (prev == Cls::Lower && cur == Cls::Upper) || (prev != Cls::Number && cur == Cls::Number)
        {
            5
        } else if cur == Cls::White {
            self.white()
        } else if cur == Cls::NonWord {
            8
        } else {
            0
        }
    }
}

pub fn fold_ascii(b: u8, ignore_case: bool) -> u8 {
    if ignore_case && b >= b'A' && b <= b'Z' {
        b + 32
    } else {
        b
    }
}

/// haystack normalization of one code point (public API of the crate's `chars` module;
/// that these two maps are what Unicode says they are is property C16's business)
pub fn norm_char(c: char, ignore_case: bool, normalize: bool) -> char {
    let mut c = c;
    if normalize {
        c = crate::chars::normalize(c);
    }
    if ignore_case {
        c = crate::chars::to_lower_case(c);
    }
    c
}

/// `needle` occurs in order in `hay` (both already normalized)
pub fn is_subseq<T: Copy + PartialEq>(hay: &[T], needle: &[T]) -> bool {
    let mut j = 0;
    let mut i = 0;
    while i < hay.len() {
        if j < needle.len() && hay[i] == needle[j] {
            j += 1;
        }
        i += 1;
    }
    j == needle.len()
}

/// The fzf scheme evaluated on one alignment. `bonus[p]` is the bonus of haystack position p,
/// `idx[..n]` the strictly increasing matched positions.
pub fn score_of(bonus: &[u32], idx: &[u32], n: usize) -> u32 {
    let first = idx[0] as usize;
    let last = idx[n - 1] as usize;
    let mut score: u32 = 16 + 2 * bonus[first];
    let mut run_first = bonus[first];
    let mut prev_matched = true;
    let mut in_gap = false;
    let mut k = 1;
    let mut p = first + 1;
    while p <= last {
        if k < n && idx[k] as usize == p {
            let mut b = bonus[p];
            if prev_matched {
                if b >= 8 && b > run_first {
                    run_first = b;
                }
                if run_first > b {
                    b = run_first;
                }
                if b < 4 {
                    b = 4;
                }
            } else {
                run_first = b;
            }
            score += 16 + b;
            prev_matched = true;
            in_gap = false;
            k += 1;
        } else {
            let pen = if in_gap { 1 } else { 3 };
            score = score.saturating_sub(pen);
            in_gap = true;
            prev_matched = false;
        }
        p += 1;
    }
    score
}

/// is `idx[..n]` a valid witness: strictly increasing, in range, characters agree
pub fn valid_witness<T: Copy + PartialEq>(hay: &[T], needle: &[T], idx: &[u32]) -> bool {
    if idx.len() != needle.len() {
        return false;
    }
    let mut k = 0;
    while k < idx.len() {
        let p = idx[k] as usize;
        if p >= hay.len() {
            return false;
        }
        if k > 0 && idx[k - 1] >= idx[k] {
            return false;
        }
        if hay[p] != needle[k] {
            return false;
        }
        k += 1;
    }
    true
}

/// Maximum of `score_of` over ALL alignments (exhaustive; nested loops of depth N <= 4 so that
/// every loop is bounded by H). Returns None when the needle is not a subsequence.
pub fn best_over_all<T: Copy + PartialEq, const H: usize, const N: usize>(
    hay: &[T; H],
    needle: &[T; N],
    bonus: &[u32; H],
) -> Option<u32> {
    assert!(N >= 1 && N <= 4);
    let mut best: Option<u32> = None;
    let mut idx = [0u32; N];
    let mut a = 0;
    while a < H {
        if hay[a] == needle[0] {
            idx[0] = a as u32;
            if N == 1 {
                best = max_opt(best, score_of(bonus, &idx, N));
            } else {
                let mut b = a + 1;
                while b < H {
                    if hay[b] == needle[1 % N] {
                        idx[1 % N] = b as u32;
                        if N == 2 {
                            best = max_opt(best, score_of(bonus, &idx, N));
                        } else {
                            let mut c = b + 1;
                            while c < H {
                                if hay[c] == needle[2 % N] {
                                    idx[2 % N] = c as u32;
                                    if N == 3 {
                                        best = max_opt(best, score_of(bonus, &idx, N));
                                    } else {
                                        let mut d = c + 1;
                                        while d < H {
                                            if hay[d] == needle[3 % N] {
                                                idx[3 % N] = d as u32;
                                                best = max_opt(best, score_of(bonus, &idx, N));
                                            }
                                            d += 1;
                                        }
                                    }
                                }
                                c += 1;
                            }
                        }
                    }
                    b += 1;
                }
            }
        }
        a += 1;
    }
    best
}

fn max_opt(best: Option<u32>, s: u32) -> Option<u32> {
    match best {
        Some(b) if b >= s => Some(b),
        _ => Some(s),
    }
}

/// The documented two-matrix (M = "ends in a match", P = "ends in a gap") affine-gap
/// recurrence, evaluated naively on the full H x N matrix.
pub fn two_matrix_dp<T: Copy + PartialEq, const H: usize, const N: usize>(
    hay: &[T; H],
    needle: &[T; N],
    bonus: &[u32; H],
) -> Option<u32> {
    // m[j] / p[j] for the current needle row; (score, run bonus)
    let mut m: [Option<(u32, u32)>; H] = [None; H];
    let mut p: [Option<u32>; H] = [None; H];
    let mut j = 0;
    while j < H {
        if hay[j] == needle[0] {
            m[j] = Some((16 + 2 * bonus[j], bonus[j]));
        }
        j += 1;
    }
    let mut i = 0;
    loop {
        // gap matrix of row i: p[j] = best score with needle[..=i] matched before j and j skipped
        let mut j = 0;
        let mut prev_p: Option<u32> = None;
        let mut prev_m: Option<(u32, u32)> = None;
        while j < H {
            let from_m = prev_m.map(|(s, _)| s.saturating_sub(3));
            let from_p = prev_p.map(|s| s.saturating_sub(1));
            p[j] = match (from_m, from_p) {
                (Some(a), Some(b)) => Some(if a > b { a } else { b }),
                (Some(a), None) => Some(a),
                (None, b) => b,
            };
            prev_p = p[j];
            prev_m = m[j];
            j += 1;
        }
        if i + 1 == N {
            break;
        }
        // next row: needle[i+1] at column j+1, coming from m[j] (consecutive) or p[j] (after a gap)
        let mut nm: [Option<(u32, u32)>; H] = [None; H];
        let mut j = 0;
        while j + 1 < H {
            if hay[j + 1] == needle[i + 1] {
                let b = bonus[j + 1];
                let via_gap = p[j].map(|s| (s + b + 16, b));
                let via_run = m[j].map(|(s, run)| {
                    let mut run = if run > 4 { run } else { 4 };
                    if b >= 8 && b > run {
                        run = b;
                    }
                    let add = if run > b { run } else { b };
                    (s + add + 16, run)
                });
                nm[j + 1] = match (via_run, via_gap) {
                    (Some(a), Some(g)) => Some(if a.0 > g.0 { a } else { g }),
                    (Some(a), None) => Some(a),
                    (None, g) => g,
                };
            }
            j += 1;
        }
        m = nm;
        i += 1;
    }
    let mut best: Option<u32> = None;
    let mut j = 0;
    while j < H {
        if let Some((s, _)) = m[j] {
            best = match best {
                Some(b) if b >= s => Some(b),
                _ => Some(s),
            };
        }
        j += 1;
    }
    best
}

/// first index at which `needle` occurs contiguously in `hay`, starting the search at `from`
pub fn occurs_at<T: Copy + PartialEq>(hay: &[T], needle: &[T], at: usize) -> bool {
    if at + needle.len() > hay.len() {
        return false;
    }
    let mut k = 0;
    while k < needle.len() {
        if hay[at + k] != needle[k] {
            return false;
        }
        k += 1;
    }
    true
}

pub fn is_ws_ascii(b: u8) -> bool {
    b == b' ' || b == b'\t' || b == b'\n' || b == 0x0c || b == b'\r'
}
