// Native replay of a solver counterexample against the real build (real memchr, no Kani).
// Input file (env NUCLEO_VERIF_REPLAY): line 1 = harness name, every further line = one draw,
// as space separated decimal bytes.
use super::sym;

pub fn lookup(name: &str) -> Option<fn()> {
    None.or_else(|| super::fuzzy::lookup(name))
        .or_else(|| super::chars_h::lookup(name))
        .or_else(|| super::chars_h::lookup_uf(name))
        .or_else(|| super::exact_h::lookup(name))
        .or_else(|| super::uni_h::lookup(name))
        .or_else(|| super::pattern_h::lookup(name))
        .or_else(|| super::compose_h::lookup(name))
        .or_else(|| super::utf32_h::lookup(name))
        .or_else(|| super::dispatch_h::lookup(name))
}

#[cfg(test)]
#[test]
fn run() {
    let path = std::env::var("NUCLEO_VERIF_REPLAY").expect("NUCLEO_VERIF_REPLAY not set");
    let text = std::fs::read_to_string(&path).expect("cannot read replay file");
    let mut lines = text.lines();
    let name = lines.next().expect("empty replay file").trim().to_string();
    let tape: Vec<Vec<u8>> = lines
        .filter(|l| !l.trim().is_empty())
        .map(|l| {
            l.split_whitespace()
                .map(|b| b.parse::<u8>().expect("bad byte"))
                .collect()
        })
        .collect();
    let f = lookup(&name).unwrap_or_else(|| panic!("REPLAY-UNKNOWN-HARNESS {name}"));
    sym::tape::load(tape);
    let res = std::panic::catch_unwind(f);
    let failed = sym::FAILED.with(|c| c.get());
    match res {
        Err(_) => println!("REPLAY-RESULT panic (a panic inside the code under test)"),
        Ok(()) if failed > 0 => println!("REPLAY-RESULT violated {failed}"),
        Ok(()) => println!("REPLAY-RESULT clean"),
    }
}

/// The oracle is validated on every run against expectations of the repository's own test
/// suite (matcher/src/tests.rs::test_fuzzy; haystack, needle, expected indices, expected score
/// with the suite's symbolic constants resolved by hand). A disagreement means the oracle -
/// not the crate - is wrong, and the run is inconclusive.
#[cfg(test)]
#[test]
fn oracle_selftest() {
    use super::spec::{self, Scheme};
    let s = Scheme { path: false };
    let vectors: &[(&str, &str, &[u32], u32)] = &[
        ("fooBarbaz1", "obr", &[2, 3, 5], 50),
        ("/usr/share/doc/at/ChangeLog", "changelog", &[18, 19, 20, 21, 22, 23, 24, 25, 26], 234),
        ("fooBarbaz1", "br", &[3, 5], 39),
        ("foo bar baz", "fbb", &[0, 4, 8], 78),
        ("/AutomatorDocument.icns", "rdoc", &[9, 10, 11, 12], 77),
        ("/man1/zshcompctl.1", "zshc", &[6, 7, 8, 9], 109),
        ("/.oh-my-zsh/cache", "zshc", &[8, 9, 10, 12], 102),
        ("ab0123 456", "12356", &[3, 4, 5, 8, 9], 88),
    ];
    let mut ok = 0;
    for (h, n, idx, want) in vectors {
        let hb = h.as_bytes();
        let nh: Vec<u8> = hb.iter().map(|&b| spec::fold_ascii(b, true)).collect();
        let mut bonus = Vec::new();
        let mut prev = s.initial();
        for &b in hb {
            let c = s.class_ascii(b);
            bonus.push(s.bonus(prev, c));
            prev = c;
        }
        assert!(spec::is_subseq(&nh, n.as_bytes()), "oracle: {n} not a subsequence of {h}");
        assert!(spec::valid_witness(&nh, n.as_bytes(), idx), "oracle: witness rejected for {h}/{n}");
        let got = spec::score_of(&bonus, idx, idx.len());
        assert_eq!(got, *want, "oracle score for {h}/{n}");
        ok += 1;
    }
    println!("ORACLE-SELFTEST-OK {ok}");
}
