// In-crate verification harnesses for nucleo-matcher. This file is `include!`d by the guarded
// hook in matcher/src/lib.rs (`mod verif`), so it sees the crate-private functions.

#[macro_use]
#[allow(dead_code, unused_imports, unused_macros, unused_variables, unused_assignments, unexpected_cfgs)]
pub(crate) mod sym {
    include!(concat!(env!("NUCLEO_VERIF_DIR"), "/matcher/sym.rs"));
}
#[allow(dead_code, unused_imports, unused_macros, unused_variables, unused_assignments, unexpected_cfgs)]
pub(crate) mod spec {
    include!(concat!(env!("NUCLEO_VERIF_DIR"), "/matcher/spec.rs"));
}
#[allow(dead_code, unused_imports, unused_macros, unused_variables, unused_assignments, unexpected_cfgs)]
pub(crate) mod common {
    include!(concat!(env!("NUCLEO_VERIF_DIR"), "/matcher/common.rs"));
}
#[allow(dead_code, unused_imports, unused_macros, unused_variables, unused_assignments, unexpected_cfgs)]
pub(crate) mod fuzzy {
    include!(concat!(env!("NUCLEO_VERIF_DIR"), "/matcher/fuzzy.rs"));
}
#[allow(dead_code, unused_imports, unused_macros, unused_variables, unused_assignments, unexpected_cfgs)]
pub(crate) mod chars_h {
    include!(concat!(env!("NUCLEO_VERIF_DIR"), "/matcher/chars_h.rs"));
}
#[allow(dead_code, unused_imports, unused_macros, unused_variables, unused_assignments, unexpected_cfgs)]
pub(crate) mod exact_h {
    include!(concat!(env!("NUCLEO_VERIF_DIR"), "/matcher/exact_h.rs"));
}
#[allow(dead_code, unused_imports, unused_macros, unused_variables, unused_assignments, unexpected_cfgs)]
pub(crate) mod uni_h {
    include!(concat!(env!("NUCLEO_VERIF_DIR"), "/matcher/uni_h.rs"));
}
#[allow(dead_code, unused_imports, unused_macros, unused_variables, unused_assignments, unexpected_cfgs)]
pub(crate) mod pattern_h {
    include!(concat!(env!("NUCLEO_VERIF_DIR"), "/matcher/pattern_h.rs"));
}
#[allow(dead_code, unused_imports, unused_macros, unused_variables, unused_assignments, unexpected_cfgs)]
pub(crate) mod compose_h {
    include!(concat!(env!("NUCLEO_VERIF_DIR"), "/matcher/compose_h.rs"));
}
#[allow(dead_code, unused_imports, unused_macros, unused_variables, unused_assignments, unexpected_cfgs)]
pub(crate) mod utf32_h {
    include!(concat!(env!("NUCLEO_VERIF_DIR"), "/matcher/utf32_h.rs"));
}
#[allow(dead_code, unused_imports, unused_macros, unused_variables, unused_assignments, unexpected_cfgs)]
pub(crate) mod dispatch_h {
    include!(concat!(env!("NUCLEO_VERIF_DIR"), "/matcher/dispatch_h.rs"));
}
#[cfg(not(kani))]
#[allow(dead_code, unused_imports, unused_macros, unused_variables, unused_assignments, unexpected_cfgs)]
pub(crate) mod replay {
    include!(concat!(env!("NUCLEO_VERIF_DIR"), "/matcher/replay.rs"));
}
