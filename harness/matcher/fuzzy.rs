// C01/C02/C03/C04/C10 on the fuzzy algorithms: lemma chain
//   P  prefilter_ascii / prefilter_non_ascii : decision + window facts W(s, g, e)
//   O  fuzzy_match_optimal on a concrete window, every content satisfying W
//   G  fuzzy_match_greedy_ on a concrete window
//   S  calculate_score on a concrete window (the `needle.len() == end - start` arm)
//   D  the public entry points at sizes where they are small enough to run end to end
// Lengths and windows are concrete per harness instance; every character, the configuration
// and the scratch pre-state are solver variables.
use super::common::*;
use super::spec;
use super::sym::{self, assume, check, cover};
use crate::chars::{AsciiChar, Char};
use crate::{Matcher, Utf32Str};

// ------------------------------------------------------------------------------------------
// P: ASCII prefilter
// ------------------------------------------------------------------------------------------
pub fn prefilter_ascii_lemma<const H: usize, const N: usize>() {
    let sc = sym_config_p(Some(false), None);
    let hay: [u8; H] = sym::ascii_arr();
    let needle: [u8; N] = sym_needle_ascii(sc.cfg.ignore_case);
    let only_greedy = sym::bool_();
    let m = Matcher::new(sc.cfg.clone());
    let nh = norm_ascii(&hay, sc.cfg.ignore_case);
    let expect = spec::is_subseq(&nh, &needle);
    let r = m.prefilter_ascii(&hay, &needle, only_greedy);
    check!(r.is_some() == expect, "C01 prefilter_ascii accepts exactly the normalized subsequences");
    if let Some((s, g, e)) = r {
        check!(s < g && g <= e && e <= H && g - s >= N, "C01 prefilter_ascii window is well formed");
        if s < H && g <= H && e <= H && s < g && g <= e {
            check!(nh[s] == needle[0], "C01 prefilter_ascii window starts at an occurrence of the first needle char");
            let mut i = 0;
            while i < s {
                check!(nh[i] != needle[0], "C01 prefilter_ascii window starts at the FIRST occurrence of the first needle char");
                i += 1;
            }
            // g is the end of the leftmost greedy match
            let mut k = 1;
            let mut p = s + 1;
            while p < g {
                if k < N && nh[p] == needle[k] {
                    k += 1;
                }
                p += 1;
            }
            check!(k == N && nh[g - 1] == needle[N - 1], "C01 prefilter_ascii greedy_end is the end of the leftmost greedy match");
            if only_greedy {
                check!(e == g, "C01 prefilter_ascii only_greedy returns end == greedy_end");
            } else {
                let mut i = e;
                while i < H {
                    check!(nh[i] != needle[N - 1], "C01 prefilter_ascii no occurrence of the last needle char at or after end");
                    i += 1;
                }
                check!(e == g || nh[e - 1] == needle[N - 1], "C01 prefilter_ascii end is just after the last occurrence of the last needle char");
            }
        }
        cover!(e > g, "window extends beyond the greedy match");
        cover!(s > 0, "window starts after position 0");
    }
    cover!(r.is_none(), "prefilter rejects");
}

// ------------------------------------------------------------------------------------------
// window assumption shared by O / G / S
// ------------------------------------------------------------------------------------------
/// assume the facts the prefilter establishes for window [s, e): first occurrence of needle[0]
/// at s, no occurrence of needle[last] at or after e
fn assume_window<T: Copy + PartialEq, const H: usize, const N: usize>(
    nh: &[T; H],
    needle: &[T; N],
    s: usize,
    e: usize,
) {
    assume(nh[s] == needle[0]);
    let mut i = 0;
    while i < s {
        assume(nh[i] != needle[0]);
        i += 1;
    }
    let mut i = e;
    while i < H {
        assume(nh[i] != needle[N - 1]);
        i += 1;
    }
}

/// leftmost greedy match end (exclusive) starting with needle[0] at s; H if there is none
fn greedy_end<T: Copy + PartialEq, const H: usize, const N: usize>(
    nh: &[T; H],
    needle: &[T; N],
    s: usize,
) -> Option<usize> {
    let mut k = 1;
    let mut p = s + 1;
    if N == 1 {
        return Some(s + 1);
    }
    while p < H {
        if nh[p] == needle[k] {
            k += 1;
            if k == N {
                return Some(p + 1);
            }
        }
        p += 1;
    }
    None
}

/// the assertions every successful indices-returning fuzzy call must satisfy
fn check_fuzzy_result<T: Copy + PartialEq, const H: usize, const N: usize, const P: usize>(
    nh: &[T; H],
    needle: &[T; N],
    bonus: &[u32; H],
    r: Option<u16>,
    idx: &[u32],
    pre: &[u32; P],
    optimal: bool,
) {
    check!(idx.len() == P + if r.is_some() { N } else { 0 }, "C02 exactly one index per needle char is appended, nothing on failure");
    let mut i = 0;
    while i < P && i < idx.len() {
        check!(idx[i] == pre[i], "C02 earlier content of the indices vector is untouched");
        i += 1;
    }
    if let Some(score) = r {
        if idx.len() == P + N {
            let w = &idx[P..];
            let valid = spec::valid_witness(nh, needle, w);
            check!(valid, "C02 reported indices are increasing, in range and spell the needle");
            if valid {
                check!(score as u32 == spec::score_of(bonus, w, N), "C03 score equals the fzf scheme evaluated on the reported alignment");
                cover!(w[N - 1] - w[0] >= N as u32, "alignment with a gap");
            }
        }
        if optimal {
            let best = spec::best_over_all(nh, needle, bonus);
            let dp = spec::two_matrix_dp(nh, needle, bonus);
            check!(best.is_some() && score as u32 <= best.unwrap_or(0), "C04 optimal score never exceeds the true optimum over all alignments");
            check!(dp.is_some() && score as u32 >= dp.unwrap_or(u32::MAX), "C04 optimal score is never below the naive two-matrix recurrence");
            cover!(best != dp, "INFO naive recurrence strictly below the true optimum");
        }
    }
}

// ------------------------------------------------------------------------------------------
// O: fuzzy_match_optimal on window [S, E), ASCII x ASCII
// ------------------------------------------------------------------------------------------
pub fn optimal_ascii<const H: usize, const N: usize, const P: usize>(s: usize, e: usize, path: Option<bool>) {
    let sc = sym_config_p(path, Some(false));
    let hay: [u8; H] = sym::ascii_arr();
    let needle: [u8; N] = sym_needle_ascii(sc.cfg.ignore_case);
    let nh = norm_ascii(&hay, sc.cfg.ignore_case);
    assume_window(&nh, &needle, s, e);
    // ASCII: the prefilter only returns windows that contain a match, longer than the needle
    let g = greedy_end(&nh, &needle, s);
    assume(g.is_some() && g.unwrap_or(0) <= e);
    let g = g.unwrap_or(s + 1);
    let bonus = bonus_ascii(&hay, sc.scheme);
    let mut m = sym_matcher(&sc.cfg);

    let (mut idx, pre) = sym_indices::<P>(N);
    #[cfg(kani)]
    let r = m.fuzzy_match_optimal::<true, AsciiChar, AsciiChar>(
        AsciiChar::cast(&hay),
        AsciiChar::cast(&needle),
        s,
        g,
        e,
        &mut idx,
    );
    // native replay: the same input through the PUBLIC entry point (a counterexample of the
    // window lemma only counts if a caller can produce it)
    #[cfg(not(kani))]
    let r = m.fuzzy_indices(Utf32Str::Ascii(&hay), Utf32Str::Ascii(&needle), &mut idx);
    check!(r.is_some(), "C01 optimal matcher accepts every window the prefilter lets through");
    check_fuzzy_result::<u8, H, N, P>(&nh, &needle, &bonus, r, &idx, &pre, true);
    // score-only twin on the same matcher (also: result independent of the previous call)
    #[cfg(kani)]
    let r2 = m.fuzzy_match_optimal::<false, AsciiChar, AsciiChar>(
        AsciiChar::cast(&hay),
        AsciiChar::cast(&needle),
        s,
        g,
        e,
        &mut Vec::new(),
    );
    #[cfg(not(kani))]
    let r2 = m.fuzzy_match(Utf32Str::Ascii(&hay), Utf32Str::Ascii(&needle));
    check!(r2 == r, "C03 score-only and indices variants return the same value (optimal)");
    std::mem::forget(m);
}

// ------------------------------------------------------------------------------------------
// G: fuzzy_match_greedy_ on (S, G) - start and leftmost greedy end concrete.
// The function minimises the start backwards (the new start depends on the content, so the
// window it hands to calculate_score is symbolic); with INDICES = true that makes CBMC explore
// Vec growth with a symbolic length and explodes (18 GB at H=4). So: the score-only variant is
// compared with the scheme evaluated on the alignment the oracle predicts (backward-minimised
// start, then forward greedy), and the indices variant of the scoring walk is covered by the S
// lemma below on every concrete window; INDICES is only forwarded by fuzzy_match_greedy_.
// ------------------------------------------------------------------------------------------
/// oracle: the alignment greedy matching reports for window [s, g)
fn greedy_alignment<T: Copy + PartialEq, const H: usize, const N: usize>(
    nh: &[T; H],
    needle: &[T; N],
    s: usize,
    g: usize,
) -> [u32; N] {
    // backwards from g-1: latest start from which the needle still fits
    let mut k = N;
    let mut p = g;
    let mut start = s;
    while p > s {
        p -= 1;
        if k > 0 && nh[p] == needle[k - 1] {
            k -= 1;
            if k == 0 {
                start = p;
                break;
            }
        }
    }
    // forwards from there
    let mut idx = [0u32; N];
    let mut k = 0;
    let mut p = start;
    while p < g {
        if k < N && nh[p] == needle[k] {
            idx[k] = p as u32;
            k += 1;
        }
        p += 1;
    }
    idx
}

pub fn greedy_ascii<const H: usize, const N: usize>(s: usize, g: usize, path: Option<bool>) {
    let sc = sym_config_p(path, Some(false));
    let hay: [u8; H] = sym::ascii_arr();
    let needle: [u8; N] = sym_needle_ascii(sc.cfg.ignore_case);
    let nh = norm_ascii(&hay, sc.cfg.ignore_case);
    assume_window(&nh, &needle, s, H);
    assume(greedy_end(&nh, &needle, s) == Some(g));
    let bonus = bonus_ascii(&hay, sc.scheme);
    let mut m = sym_matcher(&sc.cfg);
    #[cfg(kani)]
    let r = m.fuzzy_match_greedy_::<false, AsciiChar, AsciiChar>(
        AsciiChar::cast(&hay),
        AsciiChar::cast(&needle),
        s,
        g,
        &mut Vec::new(),
    );
    #[cfg(not(kani))]
    let r = m.fuzzy_match_greedy(Utf32Str::Ascii(&hay), Utf32Str::Ascii(&needle));
    check!(r.is_some(), "C01 greedy matcher accepts every window the prefilter lets through");
    let want = greedy_alignment(&nh, &needle, s, g);
    check!(spec::valid_witness(&nh, &needle, &want), "C02 oracle self-check: predicted greedy alignment is a witness");
    if let Some(score) = r {
        check!(score as u32 == spec::score_of(&bonus, &want, N), "C03 greedy score equals the fzf scheme evaluated on the greedy alignment");
        cover!(want[0] as usize > s, "backward pass moved the start");
    }
    // natively (replay) the indices variant is available through the public API: full check
    #[cfg(not(kani))]
    {
        let (mut idx, pre) = sym_indices::<0>(N);
        let ri = m.fuzzy_indices_greedy(Utf32Str::Ascii(&hay), Utf32Str::Ascii(&needle), &mut idx);
        check!(ri == r, "C03 score-only and indices variants return the same value (greedy)");
        check_fuzzy_result::<u8, H, N, 0>(&nh, &needle, &bonus, ri, &idx, &pre, false);
    }
    std::mem::forget(m);
}

// ------------------------------------------------------------------------------------------
// S: calculate_score on a concrete window [S, E) whose forward greedy match ends exactly at E
// (the contract under which both callers - the dispatcher for contiguous windows and
// fuzzy_match_greedy_ after minimising the start - invoke it)
// ------------------------------------------------------------------------------------------
pub fn score_window_ascii<const H: usize, const N: usize, const P: usize>(s: usize, e: usize, path: Option<bool>) {
    let sc = sym_config_p(path, Some(false));
    let hay: [u8; H] = sym::ascii_arr();
    let needle: [u8; N] = sym_needle_ascii(sc.cfg.ignore_case);
    let nh = norm_ascii(&hay, sc.cfg.ignore_case);
    assume(nh[s] == needle[0]);
    assume(greedy_end(&nh, &needle, s) == Some(e));
    let bonus = bonus_ascii(&hay, sc.scheme);
    let mut m = sym_matcher(&sc.cfg);
    let (mut idx, pre) = sym_indices::<P>(N);
    let r = m.calculate_score::<true, AsciiChar, AsciiChar>(
        AsciiChar::cast(&hay),
        AsciiChar::cast(&needle),
        s,
        e,
        &mut idx,
    );
    check_fuzzy_result::<u8, H, N, P>(&nh, &needle, &bonus, Some(r), &idx, &pre, false);
    let r2 = m.calculate_score::<false, AsciiChar, AsciiChar>(
        AsciiChar::cast(&hay),
        AsciiChar::cast(&needle),
        s,
        e,
        &mut Vec::new(),
    );
    check!(r2 == r, "C03 score-only and indices variants return the same value (scoring walk)");
    std::mem::forget(m);
}

// ------------------------------------------------------------------------------------------
// Long gaps: the running score is floored at zero once a gap has eaten a whole match score.
// Shape: two symbolic characters, a run of G copies of ONE symbolic filler character, two
// symbolic characters; needle of two symbolic characters; window [S, H).
// ------------------------------------------------------------------------------------------
pub fn optimal_gap_ascii<const H: usize, const P: usize>(s: usize, path: Option<bool>) {
    const N: usize = 2;
    let sc = sym_config_p(path, Some(false));
    let head: [u8; 2] = sym::ascii_arr();
    let tail: [u8; 2] = sym::ascii_arr();
    let filler = sym::ascii();
    let mut hay = [filler; H];
    hay[0] = head[0];
    hay[1] = head[1];
    hay[H - 2] = tail[0];
    hay[H - 1] = tail[1];
    let needle: [u8; N] = sym_needle_ascii(sc.cfg.ignore_case);
    let nh = norm_ascii(&hay, sc.cfg.ignore_case);
    // the filler never matches: the gap is a real gap
    assume(spec::fold_ascii(filler, sc.cfg.ignore_case) != needle[0] && spec::fold_ascii(filler, sc.cfg.ignore_case) != needle[1]);
    assume_window(&nh, &needle, s, H);
    let g = greedy_end(&nh, &needle, s);
    assume(g.is_some());
    let g = g.unwrap_or(s + 1);
    let bonus = bonus_ascii(&hay, sc.scheme);
    let mut m = sym_matcher(&sc.cfg);
    let (mut idx, pre) = sym_indices::<P>(N);
    #[cfg(kani)]
    let r = m.fuzzy_match_optimal::<true, AsciiChar, AsciiChar>(AsciiChar::cast(&hay), AsciiChar::cast(&needle), s, g, H, &mut idx);
    #[cfg(not(kani))]
    let r = m.fuzzy_indices(Utf32Str::Ascii(&hay), Utf32Str::Ascii(&needle), &mut idx);
    check!(r.is_some(), "C01 optimal matcher accepts every window the prefilter lets through (long gap)");
    // (the brute-force / naive-DP sandwich is left to the short-haystack instances: at this length
    // the two oracles alone exhaust the memory cap)
    check_fuzzy_result::<u8, H, N, P>(&nh, &needle, &bonus, r, &idx, &pre, false);
    #[cfg(kani)]
    let r2 = m.fuzzy_match_optimal::<false, AsciiChar, AsciiChar>(AsciiChar::cast(&hay), AsciiChar::cast(&needle), s, g, H, &mut Vec::new());
    #[cfg(not(kani))]
    let r2 = m.fuzzy_match(Utf32Str::Ascii(&hay), Utf32Str::Ascii(&needle));
    check!(r2 == r, "C03 score-only and indices variants return the same value (optimal, long gap)");
    if let Some(score) = r {
        cover!(idx.len() == P + N && idx[P + 1] - idx[P] > 16, "gap long enough to floor the running score at zero");
    }
    std::mem::forget(m);
}

/// the layout of the scratch views for every (haystack length, needle length) the guards accept,
/// REAL constants: every view must lie inside the slab and the views must not overlap (C10:
/// "without touching or forming references to memory outside the matcher's own scratch allocation")
#[cfg(not(nucleo_verif_small))]
pub fn layout_real(ascii: bool) {
    const L: usize = 70_000;
    static HB: [u8; L] = [b'a'; L];
    static HC: [char; L] = ['a'; L];
    let h = sym::usize_();
    let n = sym::usize_();
    assume(n >= 1 && n <= h && h <= L);
    let mut m = Matcher::new(crate::Config::DEFAULT);
    let (base, size) = m.slab.verif_raw();
    let base = base as usize;
    let mut v: [(usize, usize); 5] = [(0, 0); 5];
    let got = if ascii {
        match m.slab.alloc::<AsciiChar>(AsciiChar::cast(&HB[..h]), n) {
            Some(d) => {
                v[0] = (d.haystack.as_ptr() as usize, d.haystack.len());
                v[1] = (d.bonus.as_ptr() as usize, d.bonus.len());
                v[2] = (d.row_offs.as_ptr() as usize, d.row_offs.len() * 2);
                v[3] = (d.current_row.as_ptr() as usize, d.current_row.len() * 8);
                v[4] = (d.matrix_cells.as_ptr() as usize, d.matrix_cells.len());
                check!(d.haystack.len() == h && d.bonus.len() == h && d.row_offs.len() == n && d.current_row.len() == h + 1 - n, "C10 the scratch views have the documented lengths");
                check!(d.matrix_cells.len() >= (h + 1 - n) * n, "C10 the matrix view is large enough for every row");
                true
            }
            None => false,
        }
    } else {
        match m.slab.alloc::<char>(&HC[..h], n) {
            Some(d) => {
                v[0] = (d.haystack.as_ptr() as usize, d.haystack.len() * 4);
                v[1] = (d.bonus.as_ptr() as usize, d.bonus.len());
                v[2] = (d.row_offs.as_ptr() as usize, d.row_offs.len() * 2);
                v[3] = (d.current_row.as_ptr() as usize, d.current_row.len() * 8);
                v[4] = (d.matrix_cells.as_ptr() as usize, d.matrix_cells.len());
                check!(d.matrix_cells.len() >= (h + 1 - n) * n, "C10 the matrix view is large enough for every row (code points)");
                true
            }
            None => false,
        }
    };
    if got {
        let mut i = 0;
        while i < 5 {
            check!(v[i].0 >= base && v[i].0 + v[i].1 <= base + size, "C10 every scratch view lies inside the matcher's own allocation");
            if i > 0 {
                check!(v[i - 1].0 + v[i - 1].1 <= v[i].0, "C10 the scratch views do not overlap");
            }
            i += 1;
        }
        check!(h <= u16::MAX as usize && n <= 2048, "C10 the matrix path is only taken within the index widths it uses");
    }
    cover!(got, "matrix path taken");
    cover!(!got && h * n <= 100 * 1024, "rejected by the size of the layout, not by the cell limit");
    std::mem::forget(m);
}

include!(concat!(env!("NUCLEO_VERIF_GEN"), "/matcher_fuzzy.rs"));
