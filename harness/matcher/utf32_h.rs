// C17: string conversion keeps the documented guarantees.
use super::common::*;
use super::sym::{self, assume, check, cover};
use crate::{Utf32Str, Utf32String};
use std::borrow::Cow;

/// oracle for ASCII text: one char per byte, CR LF collapsed to LF
fn expected_ascii<const L: usize>(b: &[u8; L]) -> ([u8; L], usize, bool) {
    let mut out = [0u8; L];
    let mut n = 0;
    let mut has_crlf = false;
    let mut i = 0;
    while i < L {
        if b[i] == b'\r' && i + 1 < L && b[i + 1] == b'\n' {
            out[n] = b'\n';
            has_crlf = true;
            i += 2;
        } else {
            out[n] = b[i];
            i += 1;
        }
        n += 1;
    }
    (out, n, has_crlf)
}

fn same_content<const L: usize>(s: Utf32Str<'_>, want: &[u8; L], n: usize) -> bool {
    if s.len() != n {
        return false;
    }
    let mut i = 0;
    while i < n {
        if s.get(i as u32) as u32 != want[i] as u32 {
            return false;
        }
        i += 1;
    }
    true
}

/// ASCII strings through every constructor
pub fn convert_ascii<const L: usize>() {
    let raw: [u8; L] = sym::ascii_arr();
    let text = unsafe { std::str::from_utf8_unchecked(&raw) };
    let (want, n, crlf) = expected_ascii(&raw);
    let mut buf = Vec::with_capacity(L + 1);
    let a = Utf32Str::new(text, &mut buf);
    check!(a.is_ascii() == !crlf, "C17 the ASCII form is produced exactly when the string is ASCII and contains no CR LF pair");
    if let Utf32Str::Ascii(b) = a {
        check!(b.len() == L && b == &raw[..], "C17 the ASCII form holds the original bytes");
    }
    check!(a.len() == n, "C17 the length is the number of grapheme clusters (CR LF is one)");
    check!(same_content(a, &want, n), "C17 one character per cluster: the byte itself, or a line feed for CR LF");
    // owned constructors agree with the borrowed one
    let o1 = Utf32String::from(text);
    check!(o1.slice(..) == a, "C17 From<&str> produces the same content as Utf32Str::new");
    let o2 = Utf32String::from(text.to_owned());
    check!(o2 == o1, "C17 From<String> produces the same content");
    let o3 = Utf32String::from(text.to_owned().into_boxed_str());
    check!(o3 == o1, "C17 From<Box<str>> produces the same content");
    let o4 = Utf32String::from(Cow::Borrowed(text));
    check!(o4 == o1, "C17 From<Cow::Borrowed> produces the same content");
    cover!(crlf, "string with a CR LF pair");
    cover!(!crlf && L > 0, "plain ASCII string");
    std::mem::forget((o1, o2, o3, o4, buf));
}

/// The representation decision on its own (no grapheme segmentation is run): for every string of
/// L symbolic bytes (ASCII or not - non-ASCII bytes are only looked at by `is_ascii`), the private
/// decision function says "ASCII form" exactly when all bytes are ASCII and no CR LF pair occurs.
/// (The constructors themselves contain the call of the segmentation code, which symbolic execution
/// enters whatever the decision: they are exercised by convert_ascii / convert_crlf_tail.)
pub fn decision<const L: usize>() {
    let raw: [u8; L] = sym::bytes();
    let mut ascii = true;
    let mut crlf = false;
    let mut i = 0;
    while i < L {
        if raw[i] >= 128 {
            ascii = false;
        }
        if raw[i] == b'\r' && i + 1 < L && raw[i + 1] == b'\n' {
            crlf = true;
        }
        i += 1;
    }
    // safety: only is_ascii / a byte search look at the bytes (no char decoding happens on this path)
    let text = unsafe { std::str::from_utf8_unchecked(&raw) };
    let d = crate::utf32_str::verif_has_ascii_graphemes(text);
    check!(d == (ascii && !crlf), "C17 the ASCII form is chosen exactly when the string is ASCII and contains no CR LF pair");
    cover!(crlf && ascii, "ASCII string with a CR LF pair");
    cover!(!crlf && ascii && L > 0, "plain ASCII string");
    cover!(!ascii, "string with a non-ASCII byte");
}

/// Text that certainly takes the grapheme path: L symbolic ASCII bytes followed by a concrete CR LF.
/// (The segmentation tables are searched with symbolic keys: L is kept very small.)
pub fn convert_crlf_tail<const L: usize, const T: usize>() {
    let head: [u8; L] = sym::ascii_arr();
    let mut raw = [0u8; T];
    let mut i = 0;
    while i < L {
        raw[i] = head[i];
        i += 1;
    }
    raw[L] = b'\r';
    raw[L + 1] = b'\n';
    let text = unsafe { std::str::from_utf8_unchecked(&raw) };
    let (want, n, crlf) = expected_ascii(&raw);
    let mut buf = Vec::with_capacity(T + 1);
    let a = Utf32Str::new(text, &mut buf);
    check!(crlf && !a.is_ascii(), "C17 the ASCII form is produced exactly when the string is ASCII and contains no CR LF pair");
    check!(a.len() == n, "C17 the length is the number of grapheme clusters (CR LF is one)");
    check!(same_content(a, &want, n), "C17 one character per cluster: the byte itself, or a line feed for CR LF");
    cover!(L > 0 && head[0] == b'\r', "a lone CR before the CR LF pair");
    std::mem::forget(buf);
}

/// slicing, indexing and iteration agree with the content (both representations)
pub fn views<const L: usize>(unicode: bool) {
    let raw: [u8; L] = sym::ascii_arr();
    let mut chars = ['\0'; L];
    let mut i = 0;
    while i < L {
        chars[i] = if unicode { sym::char_below(0x110000) } else { raw[i] as char };
        i += 1;
    }
    let s = if unicode { Utf32Str::Unicode(&chars) } else { Utf32Str::Ascii(&raw) };
    check!(s.len() == L && s.is_empty() == (L == 0), "C17 len / is_empty agree with the content");
    let lo = sym::usize_();
    let hi = sym::usize_();
    assume(lo <= hi && hi <= L);
    let sub = s.slice(lo..hi);
    check!(sub.len() == hi - lo, "C17 slice has the length of its range");
    let sub2 = s.slice_u32(lo as u32..hi as u32);
    check!(sub2 == sub, "C17 slice_u32 agrees with slice");
    if hi > lo {
        let incl = s.slice(lo..=hi - 1);
        check!(incl == sub, "C17 inclusive and exclusive ranges agree");
    }
    let k = sym::usize_();
    assume(k < hi - lo);
    check!(sub.get(k as u32) == chars[lo + k], "C17 indexing a slice agrees with the content");
    // forward and backward iteration
    let mut it = sub.chars();
    let mut i = lo;
    while i < hi {
        check!(it.next() == Some(chars[i]), "C17 iteration yields the content in order");
        i += 1;
    }
    check!(it.next().is_none(), "C17 iteration ends after the content");
    let mut rit = sub.chars().rev();
    let mut i = hi;
    while i > lo {
        i -= 1;
        check!(rit.next() == Some(chars[i]), "C17 reverse iteration yields the content backwards");
    }
    check!(rit.next().is_none(), "C17 reverse iteration ends after the content");
    cover!(hi - lo >= 2, "slice of at least two characters");
}

harnesses! {
    decision_l4 [8] => decision::<4>();
    decision_l6 [10] => decision::<6>();
    convert_crlf_tail_l0 [8] => convert_crlf_tail::<0, 2>();
    convert_crlf_tail_l1 [8] => convert_crlf_tail::<1, 3>();
    convert_crlf_tail_l2 [8] => convert_crlf_tail::<2, 4>();
    convert_ascii_l2 [8] => convert_ascii::<2>();
    convert_ascii_l3 [8] => convert_ascii::<3>();
    convert_ascii_l4 [8] => convert_ascii::<4>();
    views_ascii_l3 [8] => views::<3>(false);
    views_unicode_l3 [8] => views::<3>(true);
    views_unicode_l4 [8] => views::<4>(true);
}
