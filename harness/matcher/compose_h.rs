// C15: pattern scores compose as a conjunction of atoms with negation. The ten Matcher entry
// points are replaced (`-Z stubbing`) by consistent nondeterministic stubs: each returns the
// value of a symbolic table keyed by (atom, haystack), records the configuration it was called
// under, and - for the `_indices` variants - appends a symbolic number of marker indices that
// carry the atom's identity. The stubs are the assumption "an entry point is a function of its
// arguments and the configuration", which C10 establishes on the real matcher.
use super::sym::{self, assume, check, cover};
use crate::pattern::{Atom, AtomKind, CaseMatching, Normalization, Pattern};
use crate::{Config, Matcher, Utf32Str};

pub const MAXA: usize = 3;
pub const MAXH: usize = 3;

#[derive(Clone, Copy)]
pub struct Tab {
    pub res: [[Option<u16>; MAXH]; MAXA],
    pub nidx: [u8; MAXA],
    // what the stubs observed
    pub calls: [[u8; MAXH]; MAXA],
    pub kind_seen: [[u8; MAXH]; MAXA],
    pub ic_seen: [[bool; MAXH]; MAXA],
    pub nz_seen: [[bool; MAXH]; MAXA],
}
static mut TAB: Tab = Tab {
    res: [[None; MAXH]; MAXA],
    nidx: [0; MAXA],
    calls: [[0; MAXH]; MAXA],
    kind_seen: [[0; MAXH]; MAXA],
    ic_seen: [[false; MAXH]; MAXA],
    nz_seen: [[false; MAXH]; MAXA],
};
fn tab() -> &'static mut Tab {
    unsafe { &mut *std::ptr::addr_of_mut!(TAB) }
}

// atom i has the one-character needle 'a' + i, haystack j is the one-character string 'p' + j
fn ids(h: Utf32Str<'_>, n: Utf32Str<'_>) -> (usize, usize) {
    let a = (n.get(0) as u32 - 'a' as u32) as usize;
    let j = (h.get(0) as u32 - 'p' as u32) as usize;
    assert!(a < MAXA && j < MAXH, "ENGINE compose stub: unexpected needle / haystack");
    (a, j)
}
fn record(m: &Matcher, h: Utf32Str<'_>, n: Utf32Str<'_>, kind: u8, idx: Option<&mut Vec<u32>>) -> Option<u16> {
    let (a, j) = ids(h, n);
    let t = tab();
    t.calls[a][j] = t.calls[a][j].saturating_add(1);
    t.kind_seen[a][j] = kind;
    t.ic_seen[a][j] = m.config.ignore_case;
    t.nz_seen[a][j] = m.config.normalize;
    let r = t.res[a][j];
    if let (Some(_), Some(v)) = (r, idx) {
        let mut k = 0;
        while k < t.nidx[a] {
            v.push(100 * a as u32 + k as u32);
            k += 1;
        }
    }
    r
}
pub fn s_fuzzy_match(m: &mut Matcher, h: Utf32Str<'_>, n: Utf32Str<'_>) -> Option<u16> {
    record(m, h, n, 0, None)
}
pub fn s_fuzzy_indices(m: &mut Matcher, h: Utf32Str<'_>, n: Utf32Str<'_>, i: &mut Vec<u32>) -> Option<u16> {
    record(m, h, n, 0, Some(i))
}
pub fn s_substring_match(m: &mut Matcher, h: Utf32Str<'_>, n: Utf32Str<'_>) -> Option<u16> {
    record(m, h, n, 1, None)
}
pub fn s_substring_indices(m: &mut Matcher, h: Utf32Str<'_>, n: Utf32Str<'_>, i: &mut Vec<u32>) -> Option<u16> {
    record(m, h, n, 1, Some(i))
}
pub fn s_prefix_match(m: &mut Matcher, h: Utf32Str<'_>, n: Utf32Str<'_>) -> Option<u16> {
    record(m, h, n, 2, None)
}
pub fn s_prefix_indices(m: &mut Matcher, h: Utf32Str<'_>, n: Utf32Str<'_>, i: &mut Vec<u32>) -> Option<u16> {
    record(m, h, n, 2, Some(i))
}
pub fn s_postfix_match(m: &mut Matcher, h: Utf32Str<'_>, n: Utf32Str<'_>) -> Option<u16> {
    record(m, h, n, 3, None)
}
pub fn s_postfix_indices(m: &mut Matcher, h: Utf32Str<'_>, n: Utf32Str<'_>, i: &mut Vec<u32>) -> Option<u16> {
    record(m, h, n, 3, Some(i))
}
pub fn s_exact_match(m: &mut Matcher, h: Utf32Str<'_>, n: Utf32Str<'_>) -> Option<u16> {
    record(m, h, n, 4, None)
}
pub fn s_exact_indices(m: &mut Matcher, h: Utf32Str<'_>, n: Utf32Str<'_>, i: &mut Vec<u32>) -> Option<u16> {
    record(m, h, n, 4, Some(i))
}

fn kind_code(k: AtomKind) -> u8 {
    match k {
        AtomKind::Fuzzy => 0,
        AtomKind::Substring => 1,
        AtomKind::Prefix => 2,
        AtomKind::Postfix => 3,
        AtomKind::Exact => 4,
    }
}
fn sym_kind() -> AtomKind {
    let k = sym::u8_();
    assume(k < 5);
    match k {
        0 => AtomKind::Fuzzy,
        1 => AtomKind::Substring,
        2 => AtomKind::Prefix,
        3 => AtomKind::Postfix,
        _ => AtomKind::Exact,
    }
}

pub struct Setup {
    pub pattern: Pattern,
    pub neg: [bool; MAXA],
    pub kind: [AtomKind; MAXA],
    pub ic: [bool; MAXA],
    pub hays: [String; 3],
}

fn setup<const A: usize, const HN: usize>(ic_mask: u8) -> Setup {
    let t = tab();
    *t = Tab { res: [[None; MAXH]; MAXA], nidx: [0; MAXA], calls: [[0; MAXH]; MAXA], kind_seen: [[0; MAXH]; MAXA], ic_seen: [[false; MAXH]; MAXA], nz_seen: [[false; MAXH]; MAXA] };
    let mut atoms = Vec::with_capacity(A);
    let mut neg = [false; MAXA];
    let mut kind = [AtomKind::Fuzzy; MAXA];
    let mut ic = [false; MAXA];
    let texts = ["a", "b", "c"];
    let mut a = 0;
    while a < A {
        // the case flag is concrete per instance: Atom::new on a symbolic flag forks the heap string
        ic[a] = (ic_mask >> a) & 1 == 1;
        let case = if ic[a] { CaseMatching::Ignore } else { CaseMatching::Respect };
        let mut atom = Atom::new(texts[a], case, Normalization::Never, AtomKind::Fuzzy, false);
        kind[a] = sym_kind();
        neg[a] = sym::bool_();
        atom.kind = kind[a];
        atom.negative = neg[a];
        atoms.push(atom);
        t.nidx[a] = sym::u8_();
        assume(t.nidx[a] <= 2);
        let mut j = 0;
        while j < HN {
            if sym::bool_() {
                let s = sym::u16_();
                t.res[a][j] = Some(s);
            }
            j += 1;
        }
        a += 1;
    }
    let mut st = Setup { pattern: Pattern { atoms }, neg, kind, ic, hays: [String::new(), String::new(), String::new()] };
    realize::<A, HN>(&mut st);
    st
}

/// Native replay: there are no stubs, so the drawn outcome pattern is *realised* with the real
/// matcher - haystack j contains atom a's letter iff the table said "atom a matches input j" -
/// and the table is then overwritten with what the real entry points return for each atom on
/// its own. The assertions (conjunction, sum, order, indices) are the same.
#[cfg(not(kani))]
fn realize<const A: usize, const HN: usize>(st: &mut Setup) {
    let t = tab();
    let mut m = Matcher::new(Config::DEFAULT);
    let mut j = 0;
    while j < HN {
        // the shortest realisation: exactly the letters of the atoms that are to match (an input
        // as short as its needle is the boundary case of every length comparison); the input's own
        // letter only when no atom is to match
        let mut h = String::new();
        let mut a = 0;
        while a < A {
            if t.res[a][j].is_some() {
                h.push((b'a' + a as u8) as char);
            }
            a += 1;
        }
        if h.is_empty() {
            h.push((b'p' + j as u8) as char);
        }
        let mut a = 0;
        while a < A {
            let mut inner = st.pattern.atoms[a].clone();
            inner.negative = false;
            let mut idx = Vec::new();
            t.res[a][j] = inner.indices(Utf32Str::Ascii(h.as_bytes()), &mut m, &mut idx);
            if j == 0 {
                t.nidx[a] = idx.len() as u8;
                NATIVE_IDX.with(|n| n.borrow_mut()[a] = idx);
            }
            a += 1;
        }
        st.hays[j] = h;
        j += 1;
    }
}
#[cfg(not(kani))]
thread_local! {
    static NATIVE_IDX: std::cell::RefCell<[Vec<u32>; MAXA]> = std::cell::RefCell::new([Vec::new(), Vec::new(), Vec::new()]);
}
#[cfg(kani)]
fn realize<const A: usize, const HN: usize>(st: &mut Setup) {
    st.hays = ["p".to_string(), "q".to_string(), "r".to_string()];
}
fn marker(a: usize, k: usize) -> u32 {
    #[cfg(kani)]
    {
        100 * a as u32 + k as u32
    }
    #[cfg(not(kani))]
    {
        NATIVE_IDX.with(|n| n.borrow()[a][k])
    }
}

/// Pattern::score / Pattern::indices on one haystack
pub fn pattern_compose<const A: usize>(ic_mask: u8) {
    let s = setup::<A, 1>(ic_mask);
    let mut m = Matcher::new(Config::DEFAULT);
    let hay = Utf32Str::Ascii(s.hays[0].as_bytes());
    let r = s.pattern.score(hay, &mut m);
    let t = *tab();
    // expectation from the statement
    let mut all = true;
    let mut sum: u32 = 0;
    let mut a = 0;
    while a < A {
        match (s.neg[a], t.res[a][0]) {
            (false, Some(x)) => sum += x as u32,
            (false, None) => all = false,
            (true, Some(_)) => all = false,
            (true, None) => {}
        }
        a += 1;
    }
    check!(r.is_some() == all, "C15 a pattern matches exactly when every positive atom matches and no negated atom's inner match succeeds");
    if let Some(x) = r {
        if all {
            check!(x == sum, "C15 the pattern score is the sum of the positive atoms' scores (negated atoms contribute zero)");
        }
    }
    if A == 0 {
        check!(r == Some(0), "C15 an empty pattern matches everything with score zero");
    }
    // every call ran under its own atom's flags and kind (order independence)
    let mut a = 0;
    while cfg!(kani) && a < A {
        if t.calls[a][0] > 0 {
            check!(t.ic_seen[a][0] == s.ic[a] && !t.nz_seen[a][0], "C15 every atom is matched under its own case / normalization flags");
            check!(t.kind_seen[a][0] == kind_code(s.kind[a]), "C15 every atom is matched by the entry point of its kind");
        }
        a += 1;
    }
    // indices variant
    let before = *tab();
    let mut idx: Vec<u32> = Vec::with_capacity(16);
    idx.push(7777);
    let ri = s.pattern.indices(hay, &mut m, &mut idx);
    check!(ri == r, "C15 the indices variant returns the same score");
    if ri.is_some() && all {
        let mut pos = 1;
        let mut ok = idx.len() >= 1 && idx[0] == 7777;
        let mut a = 0;
        while a < A {
            if !s.neg[a] {
                let mut k = 0;
                while k < before.nidx[a] {
                    if pos >= idx.len() || idx[pos] != marker(a, k as usize) {
                        ok = false;
                    }
                    pos += 1;
                    k += 1;
                }
            }
            a += 1;
        }
        check!(ok && pos == idx.len(), "C15 the indices variant appends each positive atom's indices in atom order and nothing for negated atoms");
    }
    cover!(r.is_some() && A > 0, "pattern matched");
    cover!(r.is_none(), "pattern rejected");
    std::mem::forget(s);
    std::mem::forget(m);
}

/// Pattern::match_list on three one-character inputs
pub fn match_list<const A: usize>(ic_mask: u8) {
    let s = setup::<A, MAXH>(ic_mask);
    let mut m = Matcher::new(Config::DEFAULT);
    let items = [s.hays[0].as_str(), s.hays[1].as_str(), s.hays[2].as_str()];
    let out = s.pattern.match_list(items, &mut m);
    let t = *tab();
    let mut score: [Option<u32>; MAXH] = [None; MAXH];
    let mut j = 0;
    while j < MAXH {
        let mut all = true;
        let mut sum = 0u32;
        let mut a = 0;
        while a < A {
            match (s.neg[a], t.res[a][j]) {
                (false, Some(x)) => sum += x as u32,
                (false, None) => all = false,
                (true, Some(_)) => all = false,
                (true, None) => {}
            }
            a += 1;
        }
        if all {
            score[j] = Some(sum);
        }
        j += 1;
    }
    let mut n = 0;
    let mut j = 0;
    while j < MAXH {
        if score[j].is_some() {
            n += 1;
        }
        j += 1;
    }
    check!(out.len() == n, "C15 match_list returns exactly the matching inputs, each once");
    let mut k = 0;
    while k < out.len() && k < MAXH {
        let j = (out[k].0.as_bytes()[0] - b'p') as usize;
        check!(j < MAXH && score[j] == Some(out[k].1), "C15 match_list reports each matching input with its pattern score");
        if k > 0 {
            let pj = (out[k - 1].0.as_bytes()[0] - b'p') as usize;
            check!(out[k - 1].1 > out[k].1 || (out[k - 1].1 == out[k].1 && pj < j), "C15 match_list is stably sorted by descending score");
        }
        k += 1;
    }
    cover!(n == 3, "all inputs match");
    std::mem::forget(out);
    std::mem::forget(s);
    std::mem::forget(m);
}

macro_rules! harnesses_compose {
    ($( $name:ident [$unwind:literal] => $body:expr ;)*) => {
        $(
            #[cfg(kani)]
            #[kani::proof]
            #[kani::unwind($unwind)]
            #[kani::stub(std::vec::Vec::push, crate::verif::common::push_no_grow)]
            #[kani::stub(crate::Matcher::fuzzy_match, crate::verif::compose_h::s_fuzzy_match)]
            #[kani::stub(crate::Matcher::fuzzy_indices, crate::verif::compose_h::s_fuzzy_indices)]
            #[kani::stub(crate::Matcher::substring_match, crate::verif::compose_h::s_substring_match)]
            #[kani::stub(crate::Matcher::substring_indices, crate::verif::compose_h::s_substring_indices)]
            #[kani::stub(crate::Matcher::prefix_match, crate::verif::compose_h::s_prefix_match)]
            #[kani::stub(crate::Matcher::prefix_indices, crate::verif::compose_h::s_prefix_indices)]
            #[kani::stub(crate::Matcher::postfix_match, crate::verif::compose_h::s_postfix_match)]
            #[kani::stub(crate::Matcher::postfix_indices, crate::verif::compose_h::s_postfix_indices)]
            #[kani::stub(crate::Matcher::exact_match, crate::verif::compose_h::s_exact_match)]
            #[kani::stub(crate::Matcher::exact_indices, crate::verif::compose_h::s_exact_indices)]
            fn $name() { $body; kani::cover!(true, "END harness end reachable"); }
        )*
    };
}

#[cfg(not(kani))]
pub fn lookup(name: &str) -> Option<fn()> {
    match name {
        "compose_a0" => Some((|| pattern_compose::<0>(0)) as fn()),
        "compose_a1" => Some((|| pattern_compose::<1>(1)) as fn()),
        "compose_a2" => Some((|| pattern_compose::<2>(1)) as fn()),
        "compose_a3" => Some((|| pattern_compose::<3>(5)) as fn()),
        "match_list_a1" => Some((|| match_list::<1>(0)) as fn()),
        "match_list_a2" => Some((|| match_list::<2>(2)) as fn()),
        _ => None,
    }
}

#[cfg(kani)]
harnesses_compose! {
    compose_a0 [8] => pattern_compose::<0>(0);
    compose_a1 [8] => pattern_compose::<1>(1);
    compose_a2 [8] => pattern_compose::<2>(1);
    compose_a3 [8] => pattern_compose::<3>(5);
    match_list_a1 [10] => match_list::<1>(0);
    match_list_a2 [10] => match_list::<2>(2);
}
