// Symbolic-input layer shared by all harnesses.
//
// Under Kani every draw is `kani::any()` (a solver variable). In a native build the
// same harness body is executed on a *tape*: the byte vectors that Kani's concrete
// playback printed for a counterexample, in the order of the draws. That is how a
// counterexample is replayed against the real build before it is reported.

#[cfg(not(kani))]
pub mod tape {
    use std::cell::RefCell;
    thread_local! {
        static TAPE: RefCell<(Vec<Vec<u8>>, usize)> = RefCell::new((Vec::new(), 0));
    }
    pub fn load(v: Vec<Vec<u8>>) {
        TAPE.with(|t| *t.borrow_mut() = (v, 0));
    }
    pub fn next(width: usize) -> Vec<u8> {
        TAPE.with(|t| {
            let mut t = t.borrow_mut();
            let i = t.1;
            t.1 += 1;
            match t.0.get(i) {
                Some(v) if v.len() == width => v.clone(),
                Some(v) => panic!("REPLAY-TAPE-MISMATCH width {} != {}", v.len(), width),
                // draws past the end of the tape are unconstrained in the counterexample
                None => vec![0; width],
            }
        })
    }
    pub fn next_any() -> Vec<u8> {
        TAPE.with(|t| {
            let mut t = t.borrow_mut();
            let i = t.1;
            t.1 += 1;
            t.0.get(i).cloned().unwrap_or_default()
        })
    }
    /// Signals that the tape does not satisfy a harness assumption (not a counterexample).
    pub fn reject(what: &str) -> ! {
        println!("REPLAY-ASSUME-FAILED {what}");
        std::process::exit(3)
    }
}

#[cfg(kani)]
#[inline(never)]
pub fn u8_() -> u8 {
    // the local's name is what the driver looks for in a CBMC trace (counterexample tape)
    let draw_u8: u8 = kani::any();
    draw_u8
}
#[cfg(not(kani))]
pub fn u8_() -> u8 {
    tape::next(1)[0]
}

#[cfg(kani)]
#[inline(never)]
pub fn bool_() -> bool {
    // the local's name is what the driver looks for in a CBMC trace (counterexample tape)
    let draw_bool: bool = kani::any();
    draw_bool
}
#[cfg(not(kani))]
pub fn bool_() -> bool {
    tape::next(1)[0] & 1 != 0
}

#[cfg(kani)]
#[inline(never)]
pub fn u16_() -> u16 {
    // the local's name is what the driver looks for in a CBMC trace (counterexample tape)
    let draw_u16: u16 = kani::any();
    draw_u16
}
#[cfg(not(kani))]
pub fn u16_() -> u16 {
    let b = tape::next(2);
    u16::from_le_bytes([b[0], b[1]])
}

#[cfg(kani)]
#[inline(never)]
pub fn u32_() -> u32 {
    // the local's name is what the driver looks for in a CBMC trace (counterexample tape)
    let draw_u32: u32 = kani::any();
    draw_u32
}
#[cfg(not(kani))]
pub fn u32_() -> u32 {
    let b = tape::next(4);
    u32::from_le_bytes([b[0], b[1], b[2], b[3]])
}

#[cfg(kani)]
#[inline(never)]
pub fn usize_() -> usize {
    // the local's name is what the driver looks for in a CBMC trace (counterexample tape)
    let draw_usize: usize = kani::any();
    draw_usize
}
#[cfg(not(kani))]
pub fn usize_() -> usize {
    let b = tape::next(8);
    usize::from_le_bytes([b[0], b[1], b[2], b[3], b[4], b[5], b[6], b[7]])
}

#[cfg(kani)]
#[inline(always)]
pub fn assume(c: bool) {
    kani::assume(c)
}
#[cfg(not(kani))]
pub fn assume(c: bool) {
    if !c {
        tape::reject("assume")
    }
}

/// Reachability witness: the driver requires every cover to be SATISFIED (vacuity guard).
#[cfg(kani)]
macro_rules! cover {
    ($c:expr, $m:literal) => {
        kani::cover!($c, $m)
    };
}
#[cfg(not(kani))]
macro_rules! cover {
    ($c:expr, $m:literal) => {
        let _ = $c;
    };
}
pub(crate) use cover;

/// Property assertion. The message starts with the property id so the driver can
/// attribute a failure; natively a failure prints a marker and panics.
#[cfg(kani)]
macro_rules! check {
    ($c:expr, $m:literal) => {
        assert!($c, $m)
    };
}
#[cfg(not(kani))]
macro_rules! check {
    ($c:expr, $m:literal) => {
        if !($c) {
            println!("REPLAY-CHECK-FAILED {}", $m);
            crate::verif::sym::note_failed($m);
        }
    };
}
pub(crate) use check;

#[cfg(not(kani))]
pub fn note_failed(_m: &str) {
    FAILED.with(|f| f.set(f.get() + 1));
}
#[cfg(not(kani))]
thread_local! {
    pub static FAILED: std::cell::Cell<u32> = std::cell::Cell::new(0);
}

#[cfg(kani)]
#[inline(never)]
pub fn bytes<const L: usize>() -> [u8; L] {
    let draw_bytes: [u8; L] = kani::any();
    draw_bytes
}
#[cfg(not(kani))]
pub fn bytes<const L: usize>() -> [u8; L] {
    let v = tape::next_any();
    let mut out = [0u8; L];
    if v.len() == L {
        out.copy_from_slice(&v);
    } else if v.len() == 1 {
        // the engine printed the array element by element
        out[0] = v[0];
        for o in out.iter_mut().skip(1) {
            *o = tape::next(1)[0];
        }
    } else if !v.is_empty() {
        panic!("REPLAY-TAPE-MISMATCH array width {} != {}", v.len(), L);
    }
    out
}

pub fn ascii() -> u8 {
    let b = u8_();
    assume(b < 128);
    b
}

pub fn ascii_arr<const L: usize>() -> [u8; L] {
    let mut a = [0u8; L];
    let mut i = 0;
    while i < L {
        a[i] = ascii();
        i += 1;
    }
    a
}

/// A scalar value below `limit` (exclusive), surrogates excluded.
pub fn char_below(limit: u32) -> char {
    let v = u32_();
    assume(v < limit && !(v >= 0xD800 && v <= 0xDFFF));
    // safety: checked above (limit <= 0x110000 at every call site)
    unsafe { char::from_u32_unchecked(v) }
}
