// C16: character maps, one symbolic `char` over the whole scalar range.
use super::common::*;
use super::sym::{self, assume, check, cover};
use crate::chars::{self, AsciiChar, Char};

include!(concat!(env!("NUCLEO_VERIF_GEN"), "/chars_ref.rs"));

fn tab_lookup(tab: &[(u32, u32)], c: u32) -> Option<u32> {
    let mut lo = 0usize;
    let mut hi = tab.len();
    while lo < hi {
        let mid = (lo + hi) / 2;
        if tab[mid].0 == c {
            return Some(tab[mid].1);
        }
        if tab[mid].0 < c {
            lo = mid + 1;
        } else {
            hi = mid;
        }
    }
    None
}

fn in_ranges(tab: &[(u32, u32)], c: u32) -> bool {
    let mut lo = 0usize;
    let mut hi = tab.len();
    while lo < hi {
        let mid = (lo + hi) / 2;
        if tab[mid].0 <= c && c <= tab[mid].1 {
            return true;
        }
        if tab[mid].1 < c {
            lo = mid + 1;
        } else {
            hi = mid;
        }
    }
    false
}

fn any_char() -> char {
    sym::char_below(0x110000)
}

/// case folding == Unicode simple case folding (reference generated from Python's UCD; code
/// points unassigned in that UCD version are outside the comparison)
pub fn fold_reference() {
    let c = any_char();
    let cp = c as u32;
    let got = chars::to_lower_case(c) as u32;
    let assigned = in_ranges(&ASSIGNED, cp);
    if assigned {
        let want = tab_lookup(&FOLD_REF, cp).unwrap_or(cp);
        check!(got == want, "C16 case folding maps every assigned character as Unicode simple case folding does");
        check!(chars::is_upper_case(c) == (want != cp), "C16 is_upper_case is exactly 'has a non-identity simple case folding'");
        cover!(want != cp && cp > 0x10000, "folding character outside the BMP");
    }
    cover!(!assigned, "code point unassigned in the reference UCD");
    // idempotence and ASCII behaviour hold for every scalar, assigned or not
    let again = chars::to_lower_case(chars::to_lower_case(c)) as u32;
    check!(again == got, "C16 case folding is idempotent");
    if cp < 128 {
        let want = if cp >= 65 && cp <= 90 { cp + 32 } else { cp };
        check!(got == want, "C16 case folding leaves ASCII other than A-Z untouched and lowers A-Z");
    }
}

/// Latin normalization: only inside the documented blocks, agrees with NFKD where that is an ASCII
/// letter/digit plus combining marks, idempotent, identity on ASCII
pub fn normalize_reference() {
    let c = any_char();
    let cp = c as u32;
    let got = chars::normalize(c) as u32;
    if got != cp {
        check!(in_ranges(&DOC_BLOCKS, cp), "C16 normalization changes only characters inside its documented blocks");
    }
    if let Some(want) = tab_lookup(&NORM_REF, cp) {
        check!(got == want, "C16 a character whose compatibility decomposition is an ASCII letter or digit plus combining marks maps to exactly that letter or digit");
    }
    check!(chars::normalize(chars::normalize(c)) as u32 == got, "C16 normalization is idempotent");
    if cp < 128 {
        check!(got == cp, "C16 normalization leaves ASCII untouched");
    }
    cover!(got != cp, "character that is normalized");
}

/// every place that normalizes a haystack character sees the same result (split into four
/// harnesses: each symbolic search of the 1454-entry folding table costs ~2 GB in CBMC)
pub fn coherence_norm() {
    let c = any_char();
    let sc = sym_config(None);
    let cfg = &sc.cfg;
    let n1 = Char::normalize(c, cfg);
    let (n2, _) = c.char_class_and_normalize(cfg);
    check!(n1 == n2, "C16 filtering (normalize) and scoring (char_class_and_normalize) see the same normalized character");
    cover!(n1 != c, "character changed by normalization");
}

pub fn coherence_compose() {
    let c = any_char();
    let sc = sym_config(None);
    let cfg = &sc.cfg;
    let n1 = Char::normalize(c, cfg);
    // the documented composition of the two public maps
    let mut want = c;
    if cfg.normalize {
        want = chars::normalize(want);
    }
    if cfg.ignore_case {
        want = chars::to_lower_case(want);
    }
    check!(n1 == want, "C16 haystack normalization is Latin normalization followed by case folding, as configured");
    cover!(n1 != c, "character changed by normalization");
}

pub fn coherence_class() {
    let c = any_char();
    let sc = sym_config(None);
    let cfg = &sc.cfg;
    let (_, class2) = c.char_class_and_normalize(cfg);
    let class1 = c.char_class(cfg);
    check!(class1 == class2, "C16 char_class and char_class_and_normalize agree on the class");
}

pub fn coherence_ascii() {
    let b = sym::ascii();
    let c = b as char;
    let sc = sym_config(None);
    let cfg = &sc.cfg;
    let n1 = Char::normalize(c, cfg);
    let (n2, class2) = c.char_class_and_normalize(cfg);
    let class1 = c.char_class(cfg);
    let a = AsciiChar(b);
    let an = Char::normalize(a, cfg);
    let (an2, ac2) = a.char_class_and_normalize(cfg);
    check!(an.0 as u32 == n1 as u32 && an2.0 as u32 == n1 as u32 && n2 == n1, "C16 the byte and the code-point representation normalize ASCII identically");
    check!(a.char_class(cfg) == class1 && ac2 == class1 && class2 == class1, "C16 the byte and the code-point representation classify ASCII identically");
    let want = if cfg.ignore_case && b >= 65 && b <= 90 { b + 32 } else { b };
    check!(an.0 == want, "C16 haystack normalization leaves ASCII other than A-Z (under case folding) untouched");
    cover!(an.0 != b, "ASCII character folded");
}

// std's Unicode property predicates are environment. Executing their table searches for a char
// over the whole scalar range needs ~300 loop unwindings per call and exhausts memory, so for the
// two coherence harnesses that reach them they are replaced (`-Z stubbing`) by uninterpreted
// functions: exact on ASCII, an arbitrary but fixed answer per distinct non-ASCII argument. The
// property must hold for ANY such answers, which includes the real ones (over-approximation); a
// counterexample is only reported if it replays natively with the real predicates.
#[cfg(kani)]
pub mod uf {
    const SLOTS: usize = 4;
    static mut MEMO: [[(u32, bool, bool); SLOTS]; 4] = [[(0, false, false); SLOTS]; 4];
    fn uf(which: usize, c: char) -> bool {
        unsafe {
            let mut i = 0;
            while i < SLOTS {
                if MEMO[which][i].2 && MEMO[which][i].0 == c as u32 {
                    return MEMO[which][i].1;
                }
                if !MEMO[which][i].2 {
                    let v: bool = kani::any();
                    MEMO[which][i] = (c as u32, v, true);
                    return v;
                }
                i += 1;
            }
        }
        kani::assume(false);
        false
    }
    pub fn is_lowercase(c: char) -> bool {
        if (c as u32) < 128 { c >= 'a' && c <= 'z' } else { uf(0, c) }
    }
    pub fn is_numeric(c: char) -> bool {
        if (c as u32) < 128 { c >= '0' && c <= '9' } else { uf(1, c) }
    }
    pub fn is_alphabetic(c: char) -> bool {
        if (c as u32) < 128 { (c >= 'a' && c <= 'z') || (c >= 'A' && c <= 'Z') } else { uf(2, c) }
    }
    pub fn is_whitespace(c: char) -> bool {
        if (c as u32) < 128 { c == ' ' || (c >= '\x09' && c <= '\x0d') } else { uf(3, c) }
    }
}

macro_rules! uf_harness {
    ($name:ident, $body:expr) => {
        #[cfg(kani)]
        #[kani::proof]
        #[kani::unwind(16)]
        #[kani::stub(char::is_lowercase, crate::verif::chars_h::uf::is_lowercase)]
        #[kani::stub(char::is_numeric, crate::verif::chars_h::uf::is_numeric)]
        #[kani::stub(char::is_alphabetic, crate::verif::chars_h::uf::is_alphabetic)]
        #[kani::stub(char::is_whitespace, crate::verif::chars_h::uf::is_whitespace)]
        fn $name() {
            $body;
            kani::cover!(true, "END harness end reachable");
        }
    };
}
uf_harness!(chars_coherence_norm, coherence_norm());
uf_harness!(chars_coherence_class, coherence_class());

#[cfg(not(kani))]
pub fn lookup_uf(name: &str) -> Option<fn()> {
    match name {
        "chars_coherence_norm" => Some(coherence_norm as fn()),
        "chars_coherence_class" => Some(coherence_class as fn()),
        _ => None,
    }
}

harnesses! {
    chars_fold_reference [16] => fold_reference();
    chars_normalize_reference [16] => normalize_reference();
    chars_coherence_compose [16] => coherence_compose();
    chars_coherence_ascii [16] => coherence_ascii();
}
